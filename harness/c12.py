"""C12 — Summary statistics equal their definitions for any container and channel form."""
import math
import struct
from fractions import Fraction

import numpy as np

import common
import fcsgen
import samples
import FlowCal
from c03 import bits

np.seterr(all='ignore')
STATS = ['mean', 'gmean', 'median', 'mode', 'std', 'cv', 'gstd', 'gcv', 'iqr', 'rcv']


def close(a, b, tol=1e-10):
    if a is None or b is None:
        return a is b
    if math.isnan(a) and math.isnan(b):
        return True
    if math.isinf(a) or math.isinf(b):
        return a == b
    return abs(a - b) <= tol * max(1.0, abs(a), abs(b))


class Prop(common.PropertyCheck):
    pid = 'C12'
    rule = ("event matrices (1..400 events; integer and float; ties, constant columns, positive-only) x container {plain array, loaded sample raw, "
            "loaded sample after to_rfi / to_mef} x channel argument {absent, position, name, list, single-element list} x all ten statistics: each "
            "compared with exact rational definitions (Lean) or 60-digit-free textbook formulas, container/channel forms compared bitwise with the "
            "plain-array position form, defining identities checked. Non-trivial = distinct (statistic, container, channel form, data kind).")
    batch_size = 60

    def gen_cases(self):
        rng = self.rng
        for N in ([131072, 65537] if self.tier == 'quick' else [65536, 65537, 131072, 196608, 131071]):
            yield {'big': True, 'N': N, 'cont': rng.choice(['array', 'sample']), 'seed': rng.randrange(1 << 30)}
        for _ in range(self.budget(260, 4000)):
            yield {'N': rng.choice([1, 2, 3, 7, 40, 400]), 'D': rng.randrange(2, 7), 'data': rng.choice(['ties', 'const', 'spread', 'spread', 'modal', 'bright', 'negative']),
                   'cont': rng.choice(['array_int', 'array_float', 'array_narrow', 'sample', 'sample', 'sample_rfi', 'sample_mef', 'sample_reordered']),
                   'chform': rng.choice(['none', 'pos', 'pos0', 'name', 'name_alias', 'list', 'list1', 'perm', 'perm', 'zigzag', 'repeat']), 'seed': rng.randrange(1 << 30)}

        # one list of channel names used on a sample of another column layout first (the caller's list belongs to the caller)
        for i in range(self.budget(24, 300)):
            yield {'N': rng.choice([3, 7, 40]), 'D': rng.randrange(3, 7), 'data': rng.choice(['spread', 'modal', 'ties']),
                   'cont': ['sample', 'sample_rfi', 'sample_reordered'][i % 3], 'chform': ['perm', 'list', 'zigzag', 'repeat'][i % 4], 'seed': rng.randrange(1 << 30), 'reuse': True}

        for i in range(self.budget(16, 150)):
            yield {'N': rng.choice([7, 40]), 'D': rng.randrange(2, 5), 'data': ['spread', 'modal', 'bright'][i % 3], 'cont': ['array_float', 'sample_rfi', 'sample_mef'][i % 3],
                   'chform': ['pos', 'list', 'name', 'none'][i % 4], 'seed': rng.randrange(1 << 30), 'inplace': True}
        for i in range(self.budget(24, 200)):
            yield {'N': rng.choice([7, 40, 400]), 'D': rng.randrange(2, 6), 'data': 'tight', 'cont': ['array_int', 'array_float', 'sample', 'sample_rfi'][i % 4],
                   'chform': ['none', 'pos', 'list', 'neg1', 'perm', 'name'][i % 6], 'seed': rng.randrange(1 << 30)}
        for i in range(self.budget(12, 100)):
            yield {'N': rng.choice([3, 40]), 'D': rng.randrange(2, 6), 'data': ['spread', 'modal'][i % 2], 'cont': ['sample', 'sample_rfi', 'array_float', 'sample_reordered'][i % 4],
                   'chform': 'neg1', 'seed': rng.randrange(1 << 30)}
        # positions counted from the end, every one of -1 .. -D (alone, in a one-element list, in a list with names)
        for i in range(self.budget(30, 240)):
            yield {'N': [3, 40][i % 2], 'D': 2 + i % 5, 'data': ['spread', 'modal'][(i // 2) % 2], 'cont': ['sample', 'array_float', 'sample_rfi', 'array_int', 'sample_reordered'][i % 5],
                   'chform': ['negk', 'negk_list1', 'negk_mixed'][(i // 5) % 3], 'k': 1 + (i * 7) % (2 + i % 5) if i % 3 else 2 + i % 5, 'seed': rng.randrange(1 << 30)}
        # raw integer samples with events at and above a non-power-of-two $PnR; narrow unsigned containers with events at the maximum of the type
        for i in range(self.budget(18, 150)):
            yield {'N': [40, 400, 7][i % 3], 'D': 2 + i % 3, 'data': ['spread', 'modal'][i % 2], 'cont': 'sample', 'chform': ['none', 'list', 'name', 'pos', 'perm'][i % 5],
                   'seed': rng.randrange(1 << 30), 'above_range': True}
        for i in range(self.budget(12, 100)):
            yield {'N': [400, 300][i % 2], 'D': 2 + i % 2, 'data': 'spread', 'cont': 'array_narrow', 'chform': ['none', 'list', 'pos', 'perm'][i % 4],
                   'seed': rng.randrange(1 << 30), 'sat_max': 8}
        # big-endian files (integer and floating-point): the statistics are those of the values, whatever the byte order of the container
        for i in range(self.budget(24, 200)):
            yield {'N': [7, 40, 3][i % 3], 'D': 2 + i % 4, 'data': ['spread', 'modal', 'ties'][(i // 2) % 3], 'cont': ['sample', 'sample_reordered', 'sample'][i % 3],
                   'chform': ['none', 'pos', 'list', 'name', 'perm'][i % 5], 'seed': rng.randrange(1 << 30), 'byteorder': 'big', 'floatfile': i % 2 == 0}
        # relative dispersions do not depend on the units: tiny and huge magnitudes; channels without signal (0/0 is not a number)
        for i in range(self.budget(24, 300)):
            yield {'N': rng.choice([7, 40, 400]), 'D': rng.randrange(2, 5), 'data': ['spread', 'modal', 'spread'][i % 3], 'cont': 'array_float',
                   'chform': ['none', 'pos', 'list', 'perm'][i % 4], 'seed': rng.randrange(1 << 30), 'scale': [1e-12, 1e-9, 1e12, 1e-15][i % 4]}
        for i in range(self.budget(12, 100)):
            yield {'N': rng.choice([7, 40]), 'D': rng.randrange(2, 5), 'data': 'zeros', 'cont': ['array_float', 'array_int', 'sample'][i % 3],
                   'chform': ['none', 'pos0', 'list', 'perm'][i % 4], 'seed': rng.randrange(1 << 30)}
        # a handful of events of 32-bit magnitude held in wide integer containers (their product leaves the 64-bit range)
        for i in range(12):
            yield {'N': [2, 3, 4][i % 3], 'D': 2, 'data': 'wide32', 'cont': 'array_int', 'idt': ['int64', 'uint64', 'uint32'][(i // 3) % 3],
                   'chform': ['none', 'pos0', 'list', 'perm'][i % 4], 'seed': 9100 + i}

    def run_big(self, case):
        """event counts around multiples of 2**16 (block-wise implementations): float reference with exact summation"""
        r = np.random.RandomState(case['seed'] % (1 << 31))
        N = case['N']
        a = np.exp(r.normal(5.0, 0.7, size=(N, 2)) + np.linspace(0, 1.5, N)[:, None])      # drifting, strictly positive
        d = a
        if case['cont'] == 'sample':
            spec = {'version': 'FCS3.0', 'delim': '/', 'datatype': 'F', 'byteord': '1,2,3,4', 'widths': [32, 32], 'ranges': [262144, 262144],
                    'events': [[0, 0]], 'names': ['FL1-H', 'FL2-H'], 'pne': {'1': '0,0', '2': '0,0'}}
            s0, _ = samples.load(spec, name='c12big.fcs')
            d = s0[[0] * N].astype(np.float64)
            d[:] = a
        out = {'big': []}
        for st in ('mean', 'std', 'gmean', 'gstd', 'gcv', 'cv'):
            got = np.asarray(getattr(FlowCal.stats, st)(d, 1), dtype=float)
            col = a[:, 1]
            n = len(col)
            m = math.fsum(col) / n
            sd = math.sqrt(math.fsum((x - m) ** 2 for x in col) / n)
            lg = [math.log(x) for x in col]
            ml = math.fsum(lg) / n
            sl = math.sqrt(math.fsum((l - ml) ** 2 for l in lg) / n)
            want = {'mean': m, 'std': sd, 'cv': sd / m, 'gmean': math.exp(ml), 'gstd': math.exp(sl), 'gcv': math.sqrt(math.exp(sl ** 2) - 1)}[st]
            if got.shape != () or not close(float(got), want, 1e-9):
                out['big'].append('%s of %d events is %r, the definition gives %r' % (st, N, got.tolist(), want))
        return out

    def build(self, case):
        r = np.random.RandomState(case['seed'] % (1 << 31))
        N, D = case['N'], case['D']
        kind = case['data']
        if kind == 'ties':
            ev = r.randint(1, 6, size=(N, D)) * 100
        elif kind == 'const':
            ev = np.full((N, D), 512)
        elif kind == 'modal':
            ev = r.randint(1, 1000, size=(N, D))
            # unique mode equal to the largest value, leading the runner-up by exactly one event
            if N >= 7:
                ev[:4, 0] = 1001; ev[4:7, 0] = 5
        elif kind == 'negative':
            # signed data centred below zero (background-subtracted / compensated values)
            ev = r.randint(-900, 120, size=(N, D))
        elif kind == 'tight':
            # a narrow peak (bead-like): coefficient of variation around 1-2 %
            ev = r.randint(400, 421, size=(N, D)) if N < 40 else np.round(r.normal(5000, 100, size=(N, D))).astype(int)
        elif kind == 'zeros':
            # a channel without signal: every value zero (first channel), mostly zeros (second)
            ev = r.randint(1, 1000, size=(N, D))
            ev[:, 0] = 0
            if D > 1:
                ev[: max(1, (4 * N) // 5), 1] = 0
        elif kind == 'wide32':
            ev = r.randint(2000000000, 4000000000, size=(N, D), dtype=np.int64)
        elif kind == 'bright':
            # a 16-bit instrument with a bright channel: central values above half of the container's maximum
            ev = r.randint(40000, 65535, size=(N, D))
        else:
            ev = r.randint(1, 1023, size=(N, D))
        top = 65536 if kind in ('bright', 'tight') else 1024
        cont = case['cont']
        if kind == 'negative' and cont == 'sample_mef':
            cont = 'sample_rfi'        # the power-law curve of this harness has no value at negative inputs
        names = None
        if cont.startswith('array'):
            if cont == 'array_narrow' and case.get('sat_max'):
                # an 8-bit container with many more elements than values, some events at the maximum of the type
                d = np.clip(ev // 4, 1, 254).astype(np.uint8)
                d[::7, :] = np.iinfo(d.dtype).max
            elif cont == 'array_narrow':
                d = (ev * 30).astype(np.int16) if kind == 'negative' else \
                    ev.astype(np.uint16) if kind == 'bright' or r.rand() < 0.5 else (ev // 8).astype(np.uint8) if r.rand() < 0.5 else (ev * 30).astype(np.int16)
            else:
                d = ev.astype(case.get('idt', 'int64')) if cont == 'array_int' else ev.astype(np.float64) + r.rand(N, D) * (0 if kind in ('ties', 'const', 'modal', 'bright', 'zeros', 'tight') else 1)
                if case.get('scale') and cont == 'array_float':
                    d = d * case['scale']            # the same data in other units (very small / very large magnitudes)
        else:
            spec = {'version': 'FCS3.0', 'delim': '/', 'datatype': 'I', 'byteord': '1,2,3,4', 'widths': [16] * D, 'ranges': [top] * D,
                    'events': [[int(min(v, top - 1)) for v in row] for row in ev], 'names': ['FSC-H', 'FL1-H', 'FL2-H', 'FL3-H', 'FL4-H', 'Time'][:D],
                    'pne': {str(i + 1): ('4,1' if i % 2 else '0,0') for i in range(D)},
                    # channel labels ($PnS): the first channel is labelled with the NAME of the last one, the second with its own name
                    'extra': [['$P1S', ['FSC-H', 'FL1-H', 'FL2-H', 'FL3-H', 'FL4-H', 'Time'][D - 1]], ['$P2S', 'FL1-H']]}
            if kind == 'negative':
                import struct as _st
                spec.update({'datatype': 'F', 'widths': [32] * D, 'pne': {str(i + 1): '0,0' for i in range(D)},
                             'events': [[_st.unpack('<I', _st.pack('<f', float(v)))[0] for v in row] for row in ev]})
            if case.get('above_range'):
                # a declared range that is not a power of two: the file holds events at and above $PnR (the reader keeps ceil(log2($PnR)) bits)
                spec['ranges'] = [1000] * D
                spec['events'] = [[int(min(v, 1023)) if (i + j) % 3 else 1000 + (i * 7 + j) % 24 for j, v in enumerate(row)] for i, row in enumerate(ev)]
            if case.get('floatfile') and kind != 'negative':
                # a floating-point file holding values with a fractional part
                import struct as _st
                spec.update({'datatype': 'F', 'widths': [32] * D, 'pne': {str(i + 1): '0,0' for i in range(D)},
                             'events': [[_st.unpack('<I', _st.pack('<f', float(v) + 0.37 * ((i + j) % 3)))[0] for j, v in enumerate(row)] for i, row in enumerate(ev)]})
            if case.get('byteorder') == 'big':
                spec['byteord'] = '4,3,2,1'       # the loaded sample keeps the file's byte order in its dtype ('>u2', '>f4')
            d, _ = samples.load(spec, name='c12.fcs')
            names = list(d.channels)
            if cont == 'sample_reordered':
                FlowCal.stats.mean(d, names[0]); d.range(names[-1])       # earlier name-based queries on the parent
                order = names[2:] + names[:2] if r.rand() < 0.5 else names[::-1]
                d = d[:, order]
                names = list(d.channels)
            if cont in ('sample_rfi', 'sample_mef'):
                d = FlowCal.transform.to_rfi(d)
            if cont == 'sample_mef':
                d = FlowCal.transform.to_mef(d, [names[1]], [lambda x: 3.0 * x ** 1.1], [names[1]])
        return d, names

    def run_impl(self, case):
        if case.get('big'):
            return self.run_big(case)
        d, names = self.build(case)
        D = d.shape[1]
        plain = np.asarray(d)
        chf = case['chform']
        if chf == 'none':
            ch, cols = None, list(range(D))
        elif chf == 'pos':
            ch, cols = 1, [1]
        elif chf == 'pos0':
            ch, cols = 0, [0]
        elif chf == 'neg1':
            ch, cols = [-1], [D - 1]              # a one-element list holding the last position counted from the end
        elif chf in ('negk', 'negk_list1', 'negk_mixed'):
            k = min(max(1, case['k']), D)          # position -k is column D - k; -D is the first column
            if chf == 'negk':
                ch, cols = -k, [D - k]
            elif chf == 'negk_list1':
                ch, cols = [-k], [D - k]
            else:
                ch, cols = [names[D - 1] if names else D - 1, -k, 0], [D - 1, D - k, 0]
        elif chf == 'name_alias':
            # the name of the last channel (which is also the $PnS label of the first one in these files)
            ch, cols = (names[D - 1] if names else D - 1), [D - 1]
        elif chf == 'name':
            ch, cols = (names[1] if names else 1), [1]
        elif chf == 'list':
            ch, cols = ([names[D - 1], 0] if names else [D - 1, 0]), [D - 1, 0]
        elif chf == 'repeat':
            # the same channel requested more than once (by name and by position): one result per request
            cols = [1, D - 1, 1] if D >= 3 else [1, 1]
            ch = [names[cols[0]] if names else cols[0], cols[1] - D if D >= 3 else 1] + ([cols[2]] if D >= 3 else [])
            ch = ch[:len(cols)]
        elif chf in ('perm', 'zigzag'):
            import random
            rr = random.Random(case['seed'])
            if chf == 'zigzag' and D >= 4:
                # ends len-1 apart, interior not the increasing run
                cols = rr.choice([[0, D - 1, 2], [0, 2, 1, 3], [1, D - 1, 0, D - 2][:3] if D >= 5 else [0, 2, 1, 3], [D - 3, D - 1, D - 4, D - 2][::-1]])
                cols = [c for c in cols if 0 <= c < D]
            else:
                cols = rr.sample(range(D), rr.randrange(1, D + 1))
            ch = [names[c] if (names and rr.random() < 0.6) else c for c in cols]
        else:
            ch, cols = [names[0] if names else 0], [0]
        scalar = chf in ('pos', 'pos0', 'name', 'name_alias', 'negk')
        out = {'cols': [[bits(v) for v in plain[:, c]] for c in cols], 'res': {}, 'plain': {}, 'shape_ok': {}, 'scalar': scalar,
               'single_precision': bool(plain.dtype.kind == 'f' and plain.dtype.itemsize == 4)}
        if case.get('reuse') and isinstance(ch, list) and names:
            try:
                other = d[:, ::-1] if case['seed'] % 2 else d[:, list(range(1, D)) + [0]]
                STATS and getattr(FlowCal.stats, STATS[case['seed'] % len(STATS)])(other, ch)
                other[:, ch]
            except Exception:
                pass
        for st in STATS:
            f = getattr(FlowCal.stats, st)
            try:
                v = f(d, ch) if ch is not None else f(d)
                a = np.asarray(v, dtype=float)
                out['res'][st] = [float(x) for x in np.atleast_1d(a)]
                out['shape_ok'][st] = (a.shape == () if scalar else a.shape == (len(cols),))
            except Exception as e:
                out['res'][st] = 'err:' + type(e).__name__ + ':' + str(e)[:60]
            try:
                pv = f(plain[:, cols[0]]) if scalar else (f(plain) if chf == 'none' else f(plain[:, cols]))
                out['plain'][st] = [float(x) for x in np.atleast_1d(np.asarray(pv, dtype=float))]
            except Exception as e:
                out['plain'][st] = 'err:' + type(e).__name__
        # the events of the same object changed in place, then the geometric statistics asked again with the same channel argument
        if case.get('inplace') and np.issubdtype(plain.dtype, np.floating):
            try:
                for st in ('gstd', 'gcv', 'gmean', 'std', 'iqr'):
                    getattr(FlowCal.stats, st)(d, ch) if ch is not None else getattr(FlowCal.stats, st)(d)
                arr = np.asarray(d)
                arr[:, cols[0]] = arr[:, cols[0]] * 3.0 + 250.0          # a view: the object itself changes
                out['after_inplace'] = {}
                for st in ('gstd', 'gcv', 'gmean', 'std', 'iqr'):
                    v = getattr(FlowCal.stats, st)(d, ch) if ch is not None else getattr(FlowCal.stats, st)(d)
                    pv = getattr(FlowCal.stats, st)(np.array(arr[:, cols[0]], dtype=float).copy())
                    out['after_inplace'][st] = [float(np.atleast_1d(np.asarray(v, dtype=float))[0]), float(pv)]
            except Exception as e:
                out['after_inplace'] = 'raised %s: %s' % (type(e).__name__, str(e)[:60])
        return out

    def post(self):
        fcsgen.cleanup()

    def oracle(self, case, impl):
        if case.get('big'):
            return None if not impl['big'] else '%s (%s)' % (impl['big'][0], case['cont'])
        for st in STATS:
            r = impl['res'][st]
            if isinstance(r, str):
                return '%s raised %s (container %s, channels %s, data %s)' % (st, r, case['cont'], case['chform'], case['data'])
            if not impl['shape_ok'][st]:
                return '%s: result shape does not match the channel argument form %s' % (st, case['chform'])
            p = impl['plain'][st]
            if isinstance(p, str) or len(p) != len(r) or any(struct.pack('<d', a) != struct.pack('<d', b) and not (math.isnan(a) and math.isnan(b)) for a, b in zip(r, p)):
                return '%s: %s with channels=%s gives %s, the plain-array position form gives %s' % (st, case['cont'], case['chform'], r, p)
        ai = impl.get('after_inplace')
        if isinstance(ai, str):
            return 'statistics after an in-place change of the events: %s' % ai
        for st, (got, want) in sorted((ai or {}).items()):
            if not close(got, want, 1e-9) and not (math.isnan(got) and math.isnan(want)):
                return '%s asked again after the events of the same object were changed in place is %r, the current values give %r' % (st, got, want)
        # textbook definitions per column
        for j, colbits in enumerate(impl['cols']):
            xs = [struct.unpack('<d', struct.pack('<Q', b))[0] for b in colbits]
            fx = [Fraction(x) for x in xs]
            n = len(xs)
            mean = sum(fx) / n
            var = sum((x - mean) ** 2 for x in fx) / n
            s = sorted(fx)

            def q(p):
                pos = Fraction(p) * (n - 1)
                lo = int(pos); hi = min(lo + 1, n - 1)
                return s[lo] + (s[hi] - s[lo]) * (pos - lo)
            med, q25, q75 = q(Fraction(1, 2)), q(Fraction(1, 4)), q(Fraction(3, 4))
            want = {'mean': float(mean), 'median': float(med), 'std': math.sqrt(var), 'iqr': float(q75 - q25),
                    'cv': math.sqrt(var) / float(mean) if mean != 0 else None, 'rcv': float((q75 - q25) / med) if med != 0 else None}
            if all(x > 0 for x in xs):
                lg = [math.log(x) for x in xs]
                ml = math.fsum(lg) / n
                sl = math.sqrt(math.fsum((l - ml) ** 2 for l in lg) / n)
                want.update({'gmean': math.exp(ml), 'gstd': math.exp(sl), 'gcv': math.sqrt(math.exp(sl ** 2) - 1)})
            for st, w in want.items():
                got = impl['res'][st][j]
                if w is None:
                    # 0/0: the quotient of the definition has no value
                    if ((st == 'cv' and var == 0) or (st == 'rcv' and q75 == q25)) and not math.isnan(got):
                        return '%s of channel %d is %r, the definition gives 0/0 (not a number) (n=%d, data %s)' % (st, j, got, n, case['data'])
                    continue
                # single-precision samples: NumPy reduces float32 data in float32 (documented NumPy behaviour, relative error ~1e-7 per value)
                if not close(got, w, 5e-6 if impl.get('single_precision') else 1e-9):
                    return '%s of channel %d is %r, the definition gives %r (n=%d, data %s)' % (st, j, got, w, n, case['data'])
            mode = impl['res']['mode'][j]
            cnt = {}
            for x in xs:
                cnt[x] = cnt.get(x, 0) + 1
            if mode not in cnt or cnt[mode] != max(cnt.values()):
                return 'mode of channel %d is %r which occurs %d times; the most frequent value occurs %d times' % (j, mode, cnt.get(mode, 0), max(cnt.values()))
            # identities
            r = impl['res']
            if want['cv'] is not None and not close(r['cv'][j], r['std'][j] / r['mean'][j], 1e-6 if impl.get('single_precision') else 1e-12):
                return 'CV != SD/mean'
            if want['rcv'] is not None and not close(r['rcv'][j], r['iqr'][j] / r['median'][j], 1e-6 if impl.get('single_precision') else 1e-12):
                return 'robust CV != IQR/median'
            if 'gstd' in want and not close(r['gcv'][j], math.sqrt(math.exp(math.log(r['gstd'][j]) ** 2) - 1), 1e-9):
                return 'geometric CV != sqrt(exp(ln(gstd)^2)-1)'
            # inequalities proved over the reals for every positive column (Properties/C12c.lean): min <= gmean <= mean <= max
            if 'gmean' in want:
                tolr = 1e-5 if impl.get('single_precision') else 1e-9
                g, mu = r['gmean'][j], r['mean'][j]
                if not (min(xs) * (1 - tolr) <= g <= mu * (1 + tolr) and mu <= max(xs) * (1 + tolr)):
                    return 'min <= geometric mean <= mean <= max violated in channel %d: min %r, gmean %r, mean %r, max %r' % (j, min(xs), g, mu, max(xs))
        return None

    def model_request(self, case, impl):
        if case.get('big'):
            return None
        if isinstance(impl['res']['mode'], str) or not impl['res']['mode'] or not all(impl['shape_ok'].values()):
            return None
        return {'op': 'stats', 'col': impl['cols'][0], 'mode': bits(impl['res']['mode'][0])}

    def compare(self, case, impl, model):
        if 'driver_error' in model:
            return 'driver: ' + model['driver_error']
        for st, key in (('mean', 'mean'), ('median', 'median'), ('iqr', 'iqr')):
            r = impl['res'][st]
            if isinstance(r, str):
                return 'impl %s raised, model has a value' % st
            w = float(Fraction(model[key][0], model[key][1]))
            if not close(r[0], w, 5e-6 if impl.get('single_precision') else 1e-12):
                return '%s: impl %r vs exact model %r' % (st, r[0], w)
        var = float(Fraction(model['variance'][0], model['variance'][1]))
        if not isinstance(impl['res']['std'], str) and not close(impl['res']['std'][0] ** 2, var, 1e-5 if impl.get('single_precision') else 1e-10):
            return 'std^2: impl %r vs exact variance %r' % (impl['res']['std'][0] ** 2, var)
        if model['mode_ok'] is not True:
            return 'model: the returned mode %r is not a most frequent value' % impl['res']['mode'][0]
        return None

    def nontrivial_key(self, case, impl):
        if case.get('big'):
            return ('big', case['cont'], case['N'])
        return (case['cont'], case['chform'], case['data'], min(case['N'], 8))
