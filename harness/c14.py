"""C14 — TEXT keywords and values are returned exactly as written, or rejected."""
import io
import itertools
import os
import tempfile
import warnings

import common
import fcswriter

import FlowCal


def ref_tokenize(seg, d, supp):
    """Independent left-to-right reference tokenizer (the model-free oracle).
    Returns ('ok', pairs_dict_items) | ('warn', tokens, n_trailing) | ('err',)."""
    if seg == '':
        return ('ok', [])
    if not supp and seg[0] != d:
        return ('err',)
    last = seg.rfind(d)
    if last < 0:
        return ('ok', [])          # only reachable for supplemental
    body = seg[:last + 1]
    i = 0
    if body[0] == d:
        if supp and len(body) >= 2 and body[1] == d:
            return ('err',)
        i = 1
    if not supp and i < len(body) and body[i] == d:
        return ('err',)
    toks = []
    warn = 0
    n = len(body)
    while i < n:
        if body[i] == d:
            return ('err',)        # token starting with the delimiter
        cur = []
        closed = False
        while i < n and not closed:
            if body[i] != d:
                cur.append(body[i]); i += 1
                continue
            j = i
            while j < n and body[j] == d:
                j += 1
            run = j - i
            if run % 2 == 1:
                cur.append(d * ((run - 1) // 2))
                closed = True
            else:
                cur.append(d * (run // 2))
                if j == n:         # even run at the very end: the tolerated ill-formed ending
                    warn = run
                    # strip what was appended: the implementation keeps only the stem
                    cur.pop()
                    closed = True
            i = j
        toks.append(''.join(cur))
    if len(toks) % 2:
        return ('err',)
    if warn:
        return ('warn', toks, warn)
    return ('ok', toks)


def pairs_to_items(toks):
    d = {}
    for k, v in zip(toks[0::2], toks[1::2]):
        d[k] = v
    return [[k, v] for k, v in d.items()]


ERRKIND = [('primary TEXT segment should start', 'notStartDelim'),
           ('starting a TEXT segment keyword', 'keywordStartsDelim'),
           ('ill-formed TEXT segment', 'illFormed'),
           ('odd # of', 'oddCount'),
           ('must specify', 'needDelim')]


class Prop(common.PropertyCheck):
    pid = 'C14'
    rule = ("(i) every string over {delimiter,a,b} up to length L (quick 10, thorough 13) as primary and as supplemental segment; "
            "(ii) random keyword/value dictionaries over a richer alphabet x every printable delimiter, written with the FCS escaping rule, read through "
            "read_fcs_text_segment and through whole files (TEXT, supplemental TEXT, ANALYSIS). Non-trivial = distinct (class, #delimiter runs by parity, "
            "segment kind) signatures among accepted/warned/rejected segments that contain at least one delimiter run of length >= 2.")
    batch_size = 20000
    assumptions = ["str.split / str.rfind / dict insertion order of CPython are modelled by FlowCal.Text.split / splitLast / toDict (validated by this exhaustive run)"]

    def gen_cases(self):
        L = self.budget(10, 13)
        L = min(L, 14)
        alpha = [47, 97, 98]
        for n in range(0, L + 1):
            for tup in itertools.product(alpha, repeat=n):
                seg = list(tup)
                yield {'k': 'seg', 'd': 47, 'supp': False, 'seg': seg}
                yield {'k': 'seg', 'd': 47, 'supp': True, 'seg': seg}
        # explicit delimiter different from first byte, other delimiters
        rng = self.rng
        for _ in range(self.budget(3000, 30000)):
            d = rng.choice([47, 124, 12, 33, 92, 36, 97])
            n = rng.randrange(0, 24)
            seg = [rng.choice([d, d, d, 97, 98, 99, 32, 36, 0, 0xc2, 0xb0]) for _ in range(n)]
            yield {'k': 'seg', 'd': d, 'supp': rng.random() < 0.5, 'seg': seg, 'auto': rng.random() < 0.3}
        # dictionaries
        printable = [c for c in range(33, 127)]
        for _ in range(self.budget(1500, 20000)):
            d = rng.choice(printable)
            alphabet = [d, d, d] + [rng.choice(printable) for _ in range(5)] + [32, 36] + ([0, 0] if rng.random() < 0.3 else [])
            ntok = 2 * rng.randrange(0, 7)
            toks = []
            for _t in range(ntok):
                first = rng.choice([c for c in alphabet if c != d])
                body = [rng.choice(alphabet) for _b in range(rng.randrange(0, 7))]
                if rng.random() < 0.3:
                    body += [d] * rng.randrange(1, 4)
                toks.append([first] + body)
            tail = [rng.choice([c for c in alphabet if c != d]) for _ in range(rng.choice([0, 0, 0, 1, 3]))]
            yield {'k': 'dict', 'd': d, 'toks': toks, 'tail': tail, 'supp': rng.random() < 0.4,
                   'lead': rng.random() < 0.5}
        # whole files
        for _ in range(self.budget(150, 2000)):
            d = rng.choice([47, 124, 33, 92, 12])
            nul = rng.random() < 0.3      # NUL-padded values as some instruments write them
            utf = rng.random() < 0.3      # values whose high bytes happen to form valid UTF-8 sequences (ISO-8859-1 text all the same)
            def tok():
                if utf and rng.random() < 0.4:
                    return rng.choice(['25\xc2\xb0C', '\xc3\x89tat', 'x\xc2\xb5m', '\xe2\x82\xac5'])
                alphabet = [d, d, 97, 98, 99, 32, 49] + ([0] if nul else [])
                first = rng.choice([c for c in alphabet if c != d])
                body = [rng.choice(alphabet) for _b in range(rng.randrange(0, 6))]
                if rng.random() < 0.25:
                    body += [d] * rng.randrange(1, 3)
                return ''.join(map(chr, [first] + body))
            extra = [[tok(), tok()] for _e in range(rng.randrange(0, 5))]
            stext = [[tok(), tok()] for _e in range(rng.randrange(1, 4))] if rng.random() < 0.5 else None
            if stext and extra and rng.random() < 0.5:
                stext[0][0] = extra[0][0]      # supplemental overrides primary
            if stext and rng.random() < 0.5:
                # a standard ($-prefixed) keyword given in the primary segment and redefined in the supplemental one
                kw = rng.choice(['$CYT', '$P1S', '$OP'])
                extra = extra + [[kw, 'primary ' + tok()]]
                stext = stext + [[kw, 'supplemental ' + tok()]]
            analysis = [[tok(), tok()] for _e in range(rng.randrange(1, 4))] if rng.random() < 0.5 else None
            bad_analysis = rng.random() < 0.15
            version = rng.choice(['FCS3.0', 'FCS3.1']) if stext is not None else rng.choice(['FCS2.0', 'FCS3.0', 'FCS3.1'])
            yield {'k': 'file', 'spec': {
                'version': version,
                'delim': chr(d), 'datatype': 'I', 'byteord': '1,2,3,4', 'widths': [8], 'ranges': [256],
                'events': [[1], [2]], 'extra': extra, 'stext': stext,
                'stext_leading': rng.random() < 0.5,
                'analysis': analysis, 'analysis_leading': rng.random() < 0.5,
                'raw_analysis': (chr(d) * 2 + 'k' + chr(d)) if (bad_analysis and analysis) else None,
                'analysis_placement': rng.choice(['header', 'text']) if version != 'FCS2.0' else 'header',
                'order': rng.choice(['TDA', 'TSDA', 'TDAS', 'STDA', 'SDTA']),
                # padding after the last delimiter of the primary TEXT; with TSDA and a leading delimiter the next byte in the file is the delimiter
                'text_trailer': rng.choice(['', '', '   ', ' ', '\x00\x00']), 'pad_data': rng.choice([0, 0, 3])}}

        # whole files whose supplemental TEXT segment cannot be paired: refused (only an unparseable ANALYSIS segment is tolerated)
        for i, raw in enumerate(['{d}SK1{d}sv1{d}SK2{d}', '{d}{d}SK1{d}sv1{d}', '{d}SK1{d}{d}sv1{d}', '{d}a{d}']):
            for d in (47, 124):
                yield {'k': 'file', 'bad_stext': True, 'spec': {
                    'version': ['FCS3.0', 'FCS3.1'][i % 2], 'delim': chr(d), 'datatype': 'I', 'byteord': '1,2,3,4', 'widths': [8], 'ranges': [256],
                    'events': [[1], [2]], 'extra': [['K1', 'v1']], 'stext': [['SK', 'sv']], 'raw_stext': raw.format(d=chr(d)),
                    'order': ['TSDA', 'TDAS', 'STDA'][i % 3], 'analysis': None, 'pad_data': 0}}
        # a supplemental TEXT segment of length zero (declared with end = begin - 1) in front of an ANALYSIS segment that has to be read with the TEXT delimiter
        for i in range(self.budget(8, 40)):
            d = [47, 124, 33, 12][i % 4]
            yield {'k': 'file', 'spec': {
                'version': ['FCS3.0', 'FCS3.1'][i % 2], 'delim': chr(d), 'datatype': 'I', 'byteord': '1,2,3,4', 'widths': [8], 'ranges': [256],
                'events': [[1], [2]], 'extra': [['K1', 'v1']], 'stext': None, 'empty_stext': True,
                'analysis': [['GATE%d' % j, 'a%d' % j] for j in range(1 + i % 3)], 'analysis_leading': i % 2 == 0, 'raw_analysis': None,
                'analysis_placement': ['header', 'text'][(i // 2) % 2], 'order': 'TDA', 'text_trailer': '', 'pad_data': 0}}
        # counts and offsets padded with blanks (writers that patch them in place): the keyword dictionary returns them as written
        for i in range(self.budget(8, 40)):
            d = [47, 124, 12, 33][i % 4]
            yield {'k': 'file', 'spec': {
                'version': ['FCS3.0', 'FCS3.1', 'FCS2.0'][i % 3], 'delim': chr(d), 'datatype': 'I', 'byteord': '1,2,3,4', 'widths': [8], 'ranges': [256],
                'events': [[1], [2], [3]], 'extra': [['NOTE', '  padded value   ']], 'stext': None, 'analysis': None, 'raw_analysis': None,
                'tot': ['3      ', '     3', ' 3 '][i % 3], 'par': ['1   ', ' 1', '1'][i % 3], 'nextdata': ['0   ', '0'][i % 2], 'offset_style': ['blank_right', 'blank_left', None][i % 3],
                'order': 'TDA', 'text_trailer': '', 'pad_data': 0}}
        # line breaks: CR / LF are ordinary characters (also right after a delimiter, at the start of a keyword or value, and as the delimiter)
        for _ in range(self.budget(1200, 12000)):
            d = rng.choice([47, 124, 10, 13, 47, 33])
            n = rng.randrange(0, 20)
            seg = [rng.choice([d, d, d, 10, 13, 10, 97, 98, 32]) for _ in range(n)]
            yield {'k': 'seg', 'd': d, 'supp': rng.random() < 0.5, 'seg': seg, 'auto': rng.random() < 0.3}
        for _ in range(self.budget(600, 6000)):
            d = rng.choice([47, 124, 10, 13, 33, 92])
            alphabet = [d, d, 10, 13, 10, 97, 98, 36, 32]
            toks = []
            for _t in range(2 * rng.randrange(1, 5)):
                first = rng.choice([c for c in alphabet if c != d])
                body = [rng.choice(alphabet) for _b in range(rng.randrange(0, 6))]
                toks.append([first] + body)
            yield {'k': 'dict', 'd': d, 'toks': toks, 'tail': [], 'supp': rng.random() < 0.4, 'lead': rng.random() < 0.5}

        # keywords that differ in letter case only are different keywords ('Sample' / 'SAMPLE', 'a' / 'A'): both come back, each with its own value
        for i, (k1, k2) in enumerate([('Sample', 'SAMPLE'), ('a', 'A'), ('$p1n', '$P1N'), ('Gate', 'gate'), ('xY', 'Xy')]):
            for d in (47, 124, 33):
                toks = [[ord(c) for c in k1], [ord(c) for c in 'tube 1'], [ord(c) for c in k2], [ord(c) for c in 'tube 2'], [ord('K')], [ord('v')]]
                yield {'k': 'dict', 'd': d, 'toks': toks, 'tail': [], 'supp': i % 2 == 1, 'lead': True}
        # two files of one template: identical primary TEXT (fixed-width offsets), different supplemental keywords, loaded one after the other
        for i in range(self.budget(8, 40)):
            d = [47, 124, 33, 12][i % 4]
            base = {'version': ['FCS3.0', 'FCS3.1'][i % 2], 'delim': chr(d), 'datatype': 'I', 'byteord': '1,2,3,4', 'widths': [8], 'ranges': [256],
                    'events': [[1], [2]], 'extra': [['K1', 'v1'], ['TUBE', 'primary']], 'analysis': None, 'raw_analysis': None, 'order': ['TDS', 'TSD', 'STD'][i % 3], 'text_trailer': '', 'pad_data': 0}
            first = dict(base, stext=[['GATE', 'P%d' % i], ['TUBE', 'A%02d' % i]])
            second = dict(base, stext=[['WELL', 'Q%d' % i], ['NOTE', 'B%02d' % i]])
            assert fcswriter.build(first)[1]['segs']['T'] == fcswriter.build(second)[1]['segs']['T']
            yield {'k': 'file', 'spec': second, 'prelude': first}
            yield {'k': 'file', 'spec': first, 'prelude': second}
        # whole files whose primary TEXT ends with two delimiter characters, given by name and as an open file object: loaded with the warning
        for i in range(8):
            d = [47, 124, 33, 12][i % 4]
            yield {'k': 'file', 'illformed': True, 'via': ['name', 'fileobj'][(i // 4) % 2], 'spec': {
                'version': ['FCS2.0', 'FCS3.0', 'FCS3.1'][i % 3], 'delim': chr(d), 'datatype': 'I', 'byteord': '1,2,3,4', 'widths': [8], 'ranges': [256],
                'events': [[1], [2]], 'extra': [['K1', 'v1'], ['TUBE', 'last value']], 'stext': None, 'analysis': None, 'raw_analysis': None,
                'order': 'TDA', 'text_trailer': chr(d), 'pad_data': 0}}
        # segments whose declared end lies 1, 2 or 5 bytes beyond the end of the buffer (the last bytes are missing): refused, whatever the remaining bytes look like
        for i in range(self.budget(60, 600)):
            d = [47, 124, 33, 12, 92][i % 5]
            pairs = [['K%d' % j, 'v%d' % j + (chr(d) * 2 if (i + j) % 3 == 0 else '')] for j in range(1 + i % 3)]
            yield {'k': 'short', 'd': d, 'pairs': pairs, 'miss': [1, 1, 2, 5][i % 4], 'pre': [0, 3, 58][(i // 4) % 3], 'supp': (i // 2) % 2 == 1, 'given': i % 3 != 0,
                   'trail': ['', ' ', chr(d)][(i // 5) % 3]}

    # ---- implementation side ------------------------------------------------
    def read_seg(self, segb, d, supp, auto=False):
        buf = io.BytesIO(segb)
        with warnings.catch_warnings(record=True) as w:
            warnings.simplefilter('always')
            try:
                text, delim = FlowCal.io.read_fcs_text_segment(
                    buf, 0, len(segb) - 1, None if auto else chr(d), supp)
            except ValueError as e:
                msg = str(e)
                kind = next((k for p, k in ERRKIND if msg.startswith(p)), 'other:' + msg[:40])
                return {'err': kind}
            except Exception as e:     # not a documented outcome
                return {'exc': type(e).__name__ + ':' + str(e)[:60]}
        warned = any('ill-formed TEXT segment' in str(x.message) for x in w)
        return {'dict': [[list(k.encode(fcswriter.ENC)), list(v.encode(fcswriter.ENC))] for k, v in text.items()],
                'warned': warned}

    def run_impl(self, case):
        if case['k'] == 'seg':
            seg = bytes(case['seg'])
            auto = bool(case.get('auto')) and not case['supp'] and len(seg) > 0
            d = seg[0] if auto else case['d']
            r = self.read_seg(seg, d, case['supp'], auto)
            r['d_used'] = d
            return r
        if case['k'] == 'short':
            d = case['d']
            seg = (fcswriter.render_text([tuple(p) for p in case['pairs']], chr(d)) + case['trail']).encode(fcswriter.ENC)
            pre = b'#' * case['pre']
            buf = io.BytesIO(pre + seg[:len(seg) - case['miss']])
            with warnings.catch_warnings():
                warnings.simplefilter('ignore')
                try:
                    text, _ = FlowCal.io.read_fcs_text_segment(buf, len(pre), len(pre) + len(seg) - 1, chr(d) if (case['given'] or case['supp']) else None, case['supp'])
                except ValueError as e:
                    return {'short': None}
                except Exception as e:
                    return {'short': 'raised %s: %s' % (type(e).__name__, str(e)[:60])}
            return {'short': 'read as %r' % (sorted(text.items()),)}
        if case['k'] == 'dict':
            d = case['d']
            toks = [''.join(map(chr, t)) for t in case['toks']]
            pairs = list(zip(toks[0::2], toks[1::2]))
            lead = True if not case['supp'] else case['lead']
            s = fcswriter.render_text(pairs, chr(d), leading=lead) + ''.join(map(chr, case['tail']))
            segb = s.encode(fcswriter.ENC)
            r = self.read_seg(segb, d, case['supp'])
            r['written'] = list(segb)
            return r
        if case['k'] == 'file':
            if case.get('prelude'):
                # another file of the same template (byte-identical primary TEXT, other supplemental keywords) is loaded just before
                pdata, _ = fcswriter.build(case['prelude'])
                fd, ppath = tempfile.mkstemp(suffix='.fcs', dir=self.tmpdir())
                os.write(fd, pdata); os.close(fd)
                try:
                    with warnings.catch_warnings():
                        warnings.simplefilter('ignore')
                        FlowCal.io.FCSFile(ppath)
                except Exception:
                    pass
                finally:
                    os.unlink(ppath)
            data, layout = fcswriter.build(case['spec'])
            fd, path = tempfile.mkstemp(suffix='.fcs', dir=self.tmpdir())
            os.write(fd, data); os.close(fd)
            try:
                with warnings.catch_warnings(record=True) as w:
                    warnings.simplefilter('always')
                    try:
                        if (case['spec'].get('analysis') and case['spec'].get('raw_analysis') is None) and len(data) % 2:
                            # loaded from an open file object that is closed right afterwards; then the file at the path is replaced by another
                            # acquisition of the same layout (other ANALYSIS values) before the keyword dictionaries are looked at
                            with open(path, 'rb') as fh:
                                f = FlowCal.io.FCSFile(fh)
                            other = dict(case['spec'], analysis=[[k, ('~' + v)[:len(v)] if v else v] for k, v in case['spec']['analysis']])
                            odata, _ = fcswriter.build(other)
                            if len(odata) == len(data):
                                with open(path, 'wb') as fh:
                                    fh.write(odata)
                        elif case.get('via') == 'fileobj':
                            with open(path, 'rb') as fh:
                                f = FlowCal.io.FCSFile(fh)
                        else:
                            f = FlowCal.io.FCSFile(path)
                        return {'twarn': any('ill-formed TEXT segment' in str(x.message) for x in w),
                                'text': sorted([k, v] for k, v in f.text.items()),
                                'analysis': sorted([k, v] for k, v in f.analysis.items()),
                                'awarn': any('ANALYSIS segment could not be parsed' in str(x.message) for x in w),
                                'layout_pairs': layout['text_pairs']}
                    except Exception as e:
                        return {'exc': type(e).__name__ + ':' + str(e)[:80]}
            finally:
                os.unlink(path)

    _tmp = None

    def tmpdir(self):
        if self._tmp is None:
            self._tmp = tempfile.mkdtemp(prefix='verif_c14_')
        return self._tmp

    def post(self):
        if self._tmp:
            import shutil
            shutil.rmtree(self._tmp, ignore_errors=True)

    # ---- oracle --------------------------------------------------------------
    def oracle(self, case, impl):
        if case.get('bad_stext'):
            if str(impl.get('exc', '')).startswith('ValueError'):
                return None
            return 'a supplemental TEXT segment that cannot be paired (%r) was not refused with ValueError: %s' % (
                case['spec']['raw_stext'], impl.get('exc') or 'loaded with keywords %s' % impl.get('text'))
        if 'exc' in impl:
            return 'unexpected exception %s' % impl['exc']
        if case['k'] == 'short':
            self.bump('class:declared-end-beyond-buffer')
            return None if impl['short'] is None else 'a segment whose last %d byte(s) are missing (delimiter %r, %d keyword(s), offset %d) was not refused: %s' % (
                case['miss'], chr(case['d']), len(case['pairs']), case['pre'], impl['short'])
        if case['k'] == 'seg':
            seg = bytes(case['seg']).decode(fcswriter.ENC)
            d = chr(impl['d_used'])
            ref = ref_tokenize(seg, d, case['supp'])
            self.bump('class:' + ref[0] + (':supp' if case['supp'] else ':prim'))
            if ref[0] == 'err':
                if 'err' not in impl:
                    return 'segment %r is not a legal encoding (reference tokenizer rejects it) but was read as %r' % (seg, impl)
                return None
            if 'err' in impl:
                return 'legal segment %r refused with %s; reference gives %r' % (seg, impl['err'], ref)
            got = [[bytes(k).decode(fcswriter.ENC), bytes(v).decode(fcswriter.ENC)] for k, v in impl['dict']]
            if ref[0] == 'ok':
                if impl['warned']:
                    return 'legal segment %r read with a warning' % seg
                if got != pairs_to_items(ref[1]):
                    return 'segment %r read as %r, reference %r' % (seg, got, pairs_to_items(ref[1]))
                return None
            # warn class
            if not impl['warned']:
                return 'ill-formed ending of %r accepted without warning: %r' % (seg, got)
            exp = pairs_to_items(ref[1])
            if ref[2] == 2:
                if got != exp:
                    return 'warned segment %r read as %r, reference %r' % (seg, got, exp)
            else:
                self.exclude('warn-with->=4-trailing-delimiters:last-value-compared-by-stem-only')
                if [g[0] for g in got] != [e[0] for e in exp] or got[:-1] != exp[:-1] or \
                        (got and not got[-1][1].startswith(exp[-1][1].rstrip(d) or exp[-1][1])):
                    return 'warned segment %r read as %r, reference (stem) %r' % (seg, got, exp)
            return None
        if case['k'] == 'dict':
            toks = [''.join(map(chr, t)) for t in case['toks']]
            exp = pairs_to_items(toks)
            if 'err' in impl:
                return 'dictionary %r written with delimiter %r refused: %s' % (exp, chr(case['d']), impl['err'])
            got = [[bytes(k).decode(fcswriter.ENC), bytes(v).decode(fcswriter.ENC)] for k, v in impl['dict']]
            if got != exp or impl['warned']:
                return 'dictionary %r (delimiter %r) read back as %r warned=%s' % (exp, chr(case['d']), got, impl['warned'])
            return None
        if case['k'] == 'file':
            spec = case['spec']
            exp = {}
            for k, v in impl['layout_pairs']:
                exp[k] = v
            for k, v in (spec.get('stext') or []):
                exp[k] = v
            if case.get('illformed') and 'exc' not in impl and not impl.get('twarn'):
                return 'a file whose TEXT segment ends with two delimiters (given as %s) was loaded without the warning about its ill-formed ending' % case['via']
            if sorted([k, v] for k, v in exp.items()) != impl['text']:
                return 'file TEXT read as %r, written %r' % (impl['text'], sorted(exp.items()))
            if spec.get('raw_analysis') is not None:
                if impl['analysis'] != [] or not impl['awarn']:
                    return 'unparseable ANALYSIS segment gave %r (warning=%s)' % (impl['analysis'], impl['awarn'])
            else:
                ea = {}
                for k, v in (spec.get('analysis') or []):
                    ea[k] = v
                if sorted([k, v] for k, v in ea.items()) != impl['analysis']:
                    return 'file ANALYSIS read as %r, written %r' % (impl['analysis'], sorted(ea.items()))
            return None

    # ---- model side -----------------------------------------------------------
    def model_request(self, case, impl):
        if case['k'] == 'short':
            return None
        if case['k'] == 'seg':
            return {'op': 'text', 'd': impl.get('d_used', case['d']), 'supp': case['supp'], 'seg': case['seg']}
        if case['k'] == 'dict':
            return {'op': 'text_dict', 'd': case['d'], 'supp': case['supp'], 'lead': True if not case['supp'] else case['lead'],
                    'toks': case['toks'], 'tail': case['tail']}
        return None

    def compare(self, case, impl, model):
        if 'driver_error' in model:
            return 'driver error: %s' % model['driver_error']
        if case['k'] == 'dict':
            if model.get('bytes') != impl.get('written'):
                return 'Lean encode and Python writer differ: %r vs %r' % (model.get('bytes'), impl.get('written'))
        if 'err' in impl or 'err' in model:
            if impl.get('err') != model.get('err'):
                return 'impl %r vs model %r' % (impl.get('err') or 'ok', model.get('err') or 'ok')
            return None
        if 'exc' in impl:
            return 'impl exception %s, model %r' % (impl['exc'], model)
        if impl['dict'] != model['dict'] or impl['warned'] != model['warned']:
            return 'impl %r vs model %r' % (impl, model)
        return None

    def nontrivial_key(self, case, impl):
        if case['k'] == 'short':
            return ('short', case['miss'], case['pre'], case['supp'], case['given'], case['trail'], len(case['pairs']))
        if case['k'] == 'seg':
            seg = case['seg']; d = impl.get('d_used', case['d'])
            runs = []
            n = 0
            for c in seg + [None]:
                if c == d:
                    n += 1
                else:
                    if n:
                        runs.append(n)
                    n = 0
            if not any(r >= 2 for r in runs):
                return None
            cls = 'err:' + impl['err'] if 'err' in impl else ('warn' if impl.get('warned') else 'ok')
            return (cls, case['supp'], tuple(min(r, 5) for r in runs))
        if case['k'] == 'dict':
            return ('dict', case['d'], len(case['toks']), sum(t.count(case['d']) for t in case['toks']) > 0, case['supp'])
        return ('file', case['spec']['delim'], bool(case['spec'].get('stext')), bool(case['spec'].get('analysis')),
                case['spec'].get('analysis_placement'), case['spec']['version'])

    def shrink_candidates(self, case):
        if case['k'] == 'seg':
            s = case['seg']
            for i in range(len(s)):
                yield dict(case, seg=s[:i] + s[i + 1:])
        elif case['k'] == 'dict':
            t = case['toks']
            for i in range(0, len(t), 2):
                yield dict(case, toks=t[:i] + t[i + 2:])
            for i in range(len(t)):
                if len(t[i]) > 1:
                    yield dict(case, toks=t[:i] + [t[i][:-1]] + t[i + 1:])
