"""C15 — A well-formed workbook always yields a complete, faithful output workbook."""
import os
import shutil
import tempfile
import warnings

import numpy as np
import pandas as pd

import common
import excelgen
import FlowCal


def cells_equal(a, b):
    if pd.isnull(a) and pd.isnull(b):
        return True
    if isinstance(a, (int, float, np.integer, np.floating)) and isinstance(b, (int, float, np.integer, np.floating)):
        return float(a) == float(b)
    return a == b


import re
UNITS_RE = re.compile(r'^\s*(\S(?:.*\S)?)\s+Units\s*$')


def idstr(v):
    """a row identifier as the workbook shows it: numbers typed as 1, 2, ... are integers"""
    if isinstance(v, (float, np.floating)) and float(v).is_integer():
        return str(int(v))
    return str(v)


class Prop(common.PropertyCheck):
    pid = 'C15'
    rule = ("generated workbooks (1..2 instruments with different channel names, bead rows clustered in 1, 2 or 3 channels, sample rows with mixed units, "
            "rows without identifier, extra user columns) x {plots on/off, histogram sheet on/off, explicit/default output path}: run() returns, the output "
            "workbook has exactly the documented sheets, every input row/column/cell is preserved in order, the documented result columns are added, every "
            "documented figure file exists; write_workbook -> read_table round trips of arbitrary tables (strings, ints, floats, empty cells, rows without id, "
            "duplicate ids); the shipped example workbook (thorough). Non-trivial = distinct (option set, instrument count, clustering arity) and distinct tables.")
    batch_size = 1
    exploration_only = ["completion of the real pipeline runs through pandas / openpyxl / matplotlib; the theorems cover the table/workbook schema (read filter, sheets, result columns)"]

    def gen_cases(self):
        rng = self.rng
        combos = [(False, True, 2, 2), (True, False, 1, 4)] if self.tier == 'quick' else \
                 [(p, h, ni, ca) for p in (False, True) for h in (False, True) for ni in (1, 2) for ca in (1, 2, 3, 4)]
        # an instrument with 12 fluorescence channels, all reported and plotted
        yield {'k': 'run', 'plot': True, 'hist': rng.random() < 0.5, 'ninst': 1, 'arity': 1, 'default_out': False, 'rel_out': True, 'seed': rng.randrange(1 << 30), 'inp_name': 'wide', 'wide': 12}
        yield {'k': 'run', 'plot': True, 'hist': False, 'ninst': 2, 'arity': 2, 'default_out': False, 'rel_out': True, 'seed': rng.randrange(1 << 30), 'inp_name': 'twice', 'again': True}
        # identifiers typed as numbers (1, 2, ...): read back as integers, used for the figure names
        yield {'k': 'run', 'plot': True, 'hist': True, 'ninst': 1, 'arity': 1, 'default_out': False, 'rel_out': False, 'seed': rng.randrange(1 << 30),
               'inp_name': 'numeric_ids', 'minimal': 'numeric_ids', 'odd_headers': False}
        for mi, minimal in enumerate(['nobeads', 'nounits']):
            yield {'k': 'run', 'plot': mi == 0, 'hist': True, 'ninst': 1, 'arity': 1, 'default_out': False, 'rel_out': False, 'seed': rng.randrange(1 << 30),
                   'inp_name': 'minimal%d' % mi, 'minimal': minimal, 'odd_headers': False}
        for ci, (plot, hist, ninst, arity) in enumerate(combos):
            yield {'cli': ci % 3 != 2, 'odd_headers': ci % 2 == 0, 'k': 'run', 'plot': plot, 'hist': hist, 'ninst': ninst, 'arity': arity, 'default_out': rng.random() < 0.5 or (plot and not hist), 'rel_out': True, 'seed': rng.randrange(1 << 30),
                   'inp_name': rng.choice(['samples', 'cells', 'mix.xls', 'xlsx', 'results.'] + ([] if (plot and not hist) else ['experiment', 'plate_07']))}
        for _ in range(self.budget(25, 300)):
            yield {'k': 'roundtrip', 'seed': rng.randrange(1 << 30), 'nrows': rng.randrange(0, 7), 'dup': rng.random() < 0.2, 'noid': rng.random() < 0.5, 'ws': rng.random() < 0.4}
        if self.tier == 'thorough':
            yield {'k': 'example', 'plot': True}

    def run_impl(self, case):
        try:
            if case['k'] == 'roundtrip':
                return self.roundtrip(case)
            if case['k'] == 'example':
                return self.example(case)
            return self.run_workbook(case)
        except Exception as e:
            import traceback
            return {'harness_err': traceback.format_exc()[-600:]}

    def roundtrip(self, case):
        r = np.random.RandomState(case['seed'] % (1 << 31))
        n = case['nrows']
        ids = ['id%d' % i for i in range(n)]
        if case.get('ws') and n >= 2:
            # identifiers that differ only by surrounding whitespace are distinct identifiers and come back unchanged
            ids[0] = 'id1 '; ids[-1] = ' lead'
            if n >= 3:
                ids[1] = 'id1'; ids[2] = 'in ner'
        if case['dup'] and n >= 2:
            ids[-1] = ids[0]

        def cell(kind):
            k = r.randint(0, 4)
            return [['text %d' % r.randint(100), 'tube #%d of 12' % r.randint(9), '# a cell that starts with a hash', 'a;b,c "quoted"'][r.randint(0, 4)],
                    int(r.randint(-5, 1000)), float(np.round(r.uniform(-1, 1), 6)), np.nan][k]
        cols = ['Name', 'Count', 'Value', 'Mixed']
        rows = [{'ID': i, **{c: cell(c) for c in cols}} for i in ids]
        extra_noid = case['noid'] and n >= 1
        df = pd.DataFrame(rows, columns=['ID'] + cols)
        tmp = tempfile.mkdtemp(prefix='verif_rt_')
        try:
            path = os.path.join(tmp, 't.xlsx')
            written = df.copy()
            if extra_noid:
                # a row without identifier but with content, and (if possible) a row with an identifier only
                written = pd.concat([written.iloc[:1], pd.DataFrame([{'ID': np.nan, 'Name': 'comment row', 'Count': 1, 'Value': np.nan, 'Mixed': np.nan}]),
                                     written.iloc[1:], pd.DataFrame([{'ID': 'only_id', 'Name': np.nan, 'Count': np.nan, 'Value': np.nan, 'Mixed': np.nan}])],
                                    ignore_index=True)
            if case['dup'] and n >= 2:
                with pd.ExcelWriter(path, engine='openpyxl') as w:
                    written.to_excel(w, sheet_name='T', index=False)
            else:
                uses_ww = bool(written['ID'].notnull().all() and len(written))
                if uses_ww:
                    # something already lies at the output path: an older workbook with other sheets, or a file that is no workbook at all (an empty file)
                    pre = case['seed'] % 3
                    if pre == 0:
                        with pd.ExcelWriter(path, engine='openpyxl') as w:
                            pd.DataFrame({'x': [1, 2]}).to_excel(w, sheet_name='Old sheet', index=False)
                            pd.DataFrame({'ID': ['stale'], 'Name': ['left over']}).to_excel(w, sheet_name='T', index=False)
                    elif pre == 1:
                        open(path, 'wb').close()
                FlowCal.excel_ui.write_workbook(path, [('T', written.set_index('ID')), ('Other', pd.DataFrame({'a': [1]}))]) if uses_ww else \
                    written.to_excel(path, sheet_name='T', index=False)
                if uses_ww:
                    import openpyxl
                    names = list(openpyxl.load_workbook(path, read_only=True).sheetnames)
                    if names != ['T', 'Other']:
                        return {'ok': False, 'detail': 'write_workbook wrote the sheets [T, Other] to a path where %s lay before; the workbook now holds the sheets %s' % (
                            ['an older workbook', 'an empty file', 'nothing'][case['seed'] % 3], names), 'ids': [None if pd.isnull(x) else x for x in written['ID']]}
            try:
                # (every second case names the reading engine explicitly -- a documented parameter; same rules)
                back = FlowCal.excel_ui.read_table(path, 'T', index_col='ID', **({'engine': 'openpyxl'} if case['seed'] % 2 else {}))
            except ValueError as e:
                return {'read_err': 'ValueError', 'ids': [None if pd.isnull(x) else x for x in written['ID']]}
            exp = written[written['ID'].notnull()]
            ok = list(back.index) == list(exp['ID']) and list(back.columns) == cols
            bad = None
            if ok:
                for i, (_, row) in enumerate(exp.iterrows()):
                    for c in cols:
                        if not cells_equal(back.iloc[i][c], row[c]):
                            bad = 'cell (%s, %s): wrote %r read %r' % (row['ID'], c, row[c], back.iloc[i][c]); break
                    if bad:
                        break
            return {'ok': ok and bad is None, 'detail': bad or ('ids %s vs %s / columns %s' % (list(back.index), list(exp['ID']), list(back.columns))),
                    'ids': [None if pd.isnull(x) else x for x in written['ID']]}
        finally:
            shutil.rmtree(tmp, ignore_errors=True)

    def run_workbook(self, case):
        ex = excelgen.Experiment(case['seed'], datatype='I', instruments=case['ninst'], wide=case.get('wide', 0))
        try:
            os.makedirs(os.path.join(ex.dir, 'FCFiles'))
            inst = ex.instruments_table()
            ex.write_fcs('FCFiles/beads1.fcs', 'FC001', kind='beads', n=1400, seed=case['seed'] % 1000 + 1)
            cl = {1: ('FL1',), 2: ('FL1', 'FL3'), 3: ('FL1', 'FL2', 'FL3'), 4: ('FL1', 'FL2', 'FL3', 'SSC')}[case['arity']]
            # MEF columns listed in another order than the instrument's channels (FL3 before FL1); a second row calibrates FL3 only
            brows = [excelgen.beads_row('B1', 'FC001', 'FCFiles/beads1.fcs', channels=('FL3', 'FL1'), clustering=cl),
                     excelgen.beads_row('B3', 'FC001', 'FCFiles/beads1.fcs', channels=('FL3',), clustering=('FL3',))]
            srows = []
            ex.write_fcs('FCFiles/s0.fcs', 'FC001', n=650, seed=case['seed'] % 1000 + 5)
            ex.write_fcs('FCFiles/s1.fcs', 'FC001', n=650, seed=case['seed'] % 1000 + 6)
            srows.append(excelgen.sample_row('S0', 'FC001', 'FCFiles/s0.fcs', {'FL1': 'MEF', 'FL2': 'a.u.'}, 'B1', extra={'Strain': 'x', 'Dose': 1.5}))
            srows.append(excelgen.sample_row('S1', 'FC001', 'FCFiles/s1.fcs', {'FL1': 'Channel', 'FL3': 'mef'}, 'B1', gate_fraction=0.5, extra={'Strain': 'y', 'Dose': 0}))
            # a row used for gating and event counts only: no units cell filled in
            # (its file is given by an absolute path)
            srows.append(excelgen.sample_row('S2', 'FC001', os.path.join(ex.dir, 'FCFiles', 's1.fcs'), {}, 'B1', gate_fraction=0.7, extra={'Strain': 'w', 'Dose': 3}))
            # a sample file that does not record detector voltages ($PnV absent), converted to MEF with beads that do record theirs
            ex.write_fcs('FCFiles/s3.fcs', 'FC001', n=650, seed=case['seed'] % 1000 + 4, voltage=None)
            srows.append(excelgen.sample_row('S3', 'FC001', 'FCFiles/s3.fcs', {'FL1': 'MEF', 'FL3': 'RFI'}, 'B1', extra={'Strain': 't', 'Dose': 6}))
            if case.get('wide'):
                ex.write_fcs('FCFiles/w0.fcs', 'FCW', n=650, seed=case['seed'] % 1000 + 8)
                srows.append(excelgen.sample_row('W0', 'FCW', 'FCFiles/w0.fcs', {c: ['RFI', 'a.u.', 'Channel'][k % 3] for k, c in enumerate(ex.inst['FCW']['fl'])}, None,
                                                 extra={'Strain': 'v', 'Dose': 4}))
            if case['ninst'] == 2:
                ex.write_fcs('FCFiles/t0.fcs', 'FC002', n=650, seed=case['seed'] % 1000 + 7)
                # the second instrument has a channel whose name contains blanks; it is calibrated by its own beads row
                ex.write_fcs('FCFiles/beads2.fcs', 'FC002', kind='beads', n=1400, seed=case['seed'] % 1000 + 2)
                brows.append(excelgen.beads_row('B4', 'FC002', 'FCFiles/beads2.fcs', channels=('PE-Texas Red (B610)-A',), clustering=('PE-Texas Red (B610)-A', 'GFP-A'),
                                                mef={'PE-Texas Red (B610)-A': excelgen.MEF_VALUES['FL2']}))
                srows.append(excelgen.sample_row('T0', 'FC002', 'FCFiles/t0.fcs', {'GFP-A': 'RFI', 'PE-Texas Red (B610)-A': 'MEF'}, 'B4', extra={'Strain': 'z', 'Dose': 2}))
            if case.get('minimal'):
                # a workbook without bead rows (the Beads sheet holds its header only) and, for 'nounits', without any units cell filled in
                brows = []
                srows = [excelgen.sample_row('S0', 'FC001', 'FCFiles/s0.fcs', {} if case['minimal'] == 'nounits' else {'FL1': 'a.u.', 'FL2': 'RFI'}, None, extra={'Strain': 'x', 'Dose': 1.5}),
                         excelgen.sample_row('S2', 'FC001', 'FCFiles/s1.fcs', {}, None, gate_fraction=0.7, extra={'Strain': 'w', 'Dose': 3})]
                if case['minimal'] == 'nobeads':
                    # a floating-point acquisition whose fluorescence was background-subtracted and clipped at zero (exact zeros, no negative value)
                    ex.datatype = 'F'
                    ex.write_fcs('FCFiles/z0.fcs', 'FC001', n=650, seed=case['seed'] % 1000 + 9, nonneg='zero')
                    ex.datatype = 'I'
                    srows.append(excelgen.sample_row('Z0', 'FC001', 'FCFiles/z0.fcs', {'FL1': 'a.u.', 'FL2': 'RFI'}, None, gate_fraction=0.8, extra={'Strain': 'u', 'Dose': 5}))
                if case['minimal'] == 'numeric_ids':
                    for k, r in enumerate(srows):
                        r['ID'] = k + 1
            beads = pd.DataFrame(brows) if brows else pd.DataFrame(columns=['ID', 'Instrument ID', 'File Path', 'Beads Lot', 'Gate Fraction', 'Clustering Channels', 'FL1 MEF Values'])
            samples = pd.DataFrame(srows)
            if case.get('minimal'):
                for c in ('FL1 Units', 'FL2 Units'):
                    if c not in samples.columns:
                        samples[c] = np.nan
            samples['Remarks'] = np.nan          # a column the user has not filled in at all
            if case.get('odd_headers', case['seed'] % 2):
                # headers as typed in a spreadsheet: a trailing blank, two blanks before "Units" (both match the documented header pattern)
                samples = samples.rename(columns={'FL2 Units': 'FL2  Units', 'FL1 Units': 'FL1 Units '})
            # a row without identifier (a comment) in each sheet: must be dropped on reading
            if case.get('minimal') != 'numeric_ids':         # (a cell left empty would turn a column of integers into floating-point numbers)
                samples = pd.concat([samples, pd.DataFrame([{'ID': np.nan, 'Strain': 'comment without id'}])], ignore_index=True)
            inp = os.path.join(ex.dir, case.get('inp_name', 'experiment') + '.xlsx')
            with pd.ExcelWriter(inp, engine='openpyxl') as w:
                inst.reset_index().to_excel(w, sheet_name='Instruments', index=False)
                beads.to_excel(w, sheet_name='Beads', index=False)
                samples.to_excel(w, sheet_name='Samples', index=False)
            outp = None if case['default_out'] else os.path.join(ex.dir, 'result.xlsx')
            cwd = os.getcwd()
            inp_arg = inp
            if case.get('rel_out') and not case['default_out']:
                # input given relative to the working directory, in another folder; explicit relative output path
                os.chdir(os.path.dirname(ex.dir))
                inp_arg = os.path.join(os.path.basename(ex.dir), os.path.basename(inp))
                outp = 'verif_rel_out_%d_%d.xlsx' % (os.getpid(), case['seed'] % 100000)      # unique per process: checks of other checkouts may run at the same time
            try:
                with warnings.catch_warnings():
                    warnings.simplefilter('ignore')
                    np.random.seed(9)
                    if case.get('cli'):
                        # through the command-line entry point (the `flowcal` console script), options as a user types them
                        argv = ['-i', inp_arg] + (['-o', outp] if outp else []) + (['-p'] if case['plot'] else []) + (['--histogram-sheet' if case['seed'] % 2 else '-H'] if case['hist'] else [])
                        FlowCal.excel_ui.run_command_line(argv)
                    else:
                        FlowCal.excel_ui.run(input_path=inp_arg, output_path=outp, verbose=False, plot=case['plot'], hist_sheet=case['hist'])
                    if case.get('again'):
                        # the same folder processed a second time (figures and folders of the first run exist); one sample file has been
                        # replaced by a longer acquisition in between
                        first_out = os.path.abspath(outp) if outp else os.path.join(ex.dir, case.get('inp_name', 'experiment') + '_output.xlsx')
                        nev1 = pd.read_excel(first_out, sheet_name='Samples', engine='openpyxl').set_index('ID')['Number of Events'].get('S1')
                        ex.write_fcs('FCFiles/s1.fcs', 'FC001', n=1500, seed=case['seed'] % 1000 + 66)
                        np.random.seed(9)
                        FlowCal.excel_ui.run(input_path=inp_arg, output_path=outp, verbose=False, plot=case['plot'], hist_sheet=case['hist'])
                        nev2 = pd.read_excel(first_out, sheet_name='Samples', engine='openpyxl').set_index('ID')['Number of Events'].get('S1')
                        self._again = (None if pd.isnull(nev1) else int(nev1), None if pd.isnull(nev2) else int(nev2))
                if case.get('rel_out') and not case['default_out']:
                    outp = os.path.abspath(outp)
            finally:
                os.chdir(cwd)
            # the bead model parameters the library computes for each beads row and channel (same seed), by hand
            with warnings.catch_warnings():
                warnings.simplefilter('ignore')
                np.random.seed(9)
                bt = beads.set_index('ID')
                _bs, _fx, mo = FlowCal.excel_ui.process_beads_table(bt, inst, base_dir=ex.dir, full_output=True)
            want_params = {}
            for bid, o in mo.items():
                if o is not None:
                    for k, c in enumerate(o.mef_channels):
                        want_params['%s|%s' % (bid, c)] = ', '.join(str(p) for p in o.fitting['beads_params'][k])
            outp = outp or os.path.join(ex.dir, case.get('inp_name', 'experiment') + '_output.xlsx')
            self._rel_out_file = outp if case.get('rel_out') else None
            res = {'exists': os.path.exists(outp), 'workbooks': sorted(f for f in os.listdir(ex.dir) if f.endswith('.xlsx'))}
            if not res['exists']:
                return res
            xl = pd.ExcelFile(outp, engine='openpyxl')
            res['sheets'] = list(xl.sheet_names)
            problems = []
            # the written file is a valid workbook for a standard reader in its normal (not read-only) mode
            try:
                import openpyxl
                wb = openpyxl.load_workbook(outp)
                if list(wb.sheetnames) != res['sheets']:
                    problems.append('openpyxl.load_workbook sees sheets %s' % list(wb.sheetnames))
                wb.close()
            except Exception as e:
                problems.append('the output workbook cannot be opened with openpyxl.load_workbook(): %s: %s' % (type(e).__name__, str(e)[:80]))
            for sheet, src in (('Instruments', inst.reset_index()), ('Beads', beads), ('Samples', samples[samples['ID'].notnull()])):
                out = pd.read_excel(outp, sheet_name=sheet, engine='openpyxl')
                if list(out.columns[:len(src.columns)]) != list(src.columns):
                    problems.append('%s: input columns not preserved in order: %s' % (sheet, list(out.columns[:len(src.columns)])))
                    continue
                if list(out['ID']) != list(src['ID']):
                    problems.append('%s: rows %s vs input %s' % (sheet, list(out['ID']), list(src['ID'])))
                    continue
                for i in range(len(src)):
                    for c in src.columns:
                        if not cells_equal(out.iloc[i][c], src.iloc[i][c]):
                            problems.append('%s: cell (%s, %s) was %r, now %r' % (sheet, src.iloc[i]['ID'], c, src.iloc[i][c], out.iloc[i][c]))
                res[sheet + '_added'] = list(out.columns[len(src.columns):])
                if sheet == 'Samples':
                    res['notes'] = [str(x) for x in out['Analysis Notes']]
                    if 'Z0' in list(out['ID']):
                        # geometric statistics of a channel holding zeros: computed on its positive events (finite, positive), with the documented note
                        z = out.set_index('ID').loc['Z0']
                        for ch in ('FL1', 'FL2'):
                            vals = [z.get('%s Geom. %s' % (ch, k)) for k in ('Mean', 'Std', 'CV')]
                            if any(v is None or pd.isnull(v) or not np.isfinite(float(v)) or float(v) <= 0 for v in vals):
                                problems.append('Samples: geometric statistics of channel %s of row Z0 (zero-clipped floating-point data) are %s' % (ch, vals))
                            if ('channel %s calculated on positive events' % ch) not in str(z.get('Analysis Notes')):
                                problems.append('Samples: row Z0 lacks the documented note on geometric statistics for channel %s (notes: %r)' % (ch, str(z.get('Analysis Notes'))[:80]))
            # the documented result columns are present in both result sheets, whether or not there are rows to fill them
            for sheet in ('Beads', 'Samples'):
                missing = [c for c in ('Analysis Notes', 'Number of Events', 'Acquisition Time (s)') if c not in (res.get(sheet + '_added') or [])]
                if missing and (sheet + '_added') in res:
                    problems.append('%s sheet: documented result columns %s are missing (columns added: %s)' % (sheet, missing, res[sheet + '_added'][:6]))
            if case['hist'] and 'Histograms' in res['sheets']:
                h = pd.read_excel(outp, sheet_name='Histograms', engine='openpyxl')
                res['hist_head'] = [str(c) for c in h.columns[:3]]
                rows_h = []
                if list(h.columns[:2]) == ['Sample ID', 'Channel']:
                    bins = [c for c in h.columns if str(c).startswith('Bin ')]
                    for _, r in h.iterrows():
                        rows_h.append([idstr(r['Sample ID']), str(r['Channel']), str(r[h.columns[2]]), float(np.nansum(np.asarray(r[bins], dtype=float)))])
                res['hist_rows'] = rows_h
                nev = pd.read_excel(outp, sheet_name='Samples', engine='openpyxl').set_index('ID')['Number of Events']
                res['nev'] = {idstr(k): (None if pd.isnull(v) else int(v)) for k, v in nev.items()}
                res['expected_pairs'] = sorted([idstr(r['ID']), UNITS_RE.match(c).group(1)] for _, r in samples[samples['ID'].notnull()].iterrows()
                                               for c in samples.columns if UNITS_RE.match(c) and not pd.isnull(r[c]))
            bout = pd.read_excel(outp, sheet_name='Beads', engine='openpyxl').set_index('ID')
            for key, wantp in want_params.items():
                bid, c = key.split('|')
                got = bout.loc[bid].get(c + ' Beads Params. Values')
                if str(got) != wantp:
                    problems.append('Beads sheet: %s of row %s is %r, the bead model fitted for that channel has parameters %r' % (c + ' Beads Params. Values', bid, got, wantp))
            if case.get('rel_out') and not case['default_out'] and os.path.exists(outp):
                res['rel_out_ok'] = True
            if case.get('again'):
                n1, n2 = getattr(self, '_again', (None, None))
                if n1 is None or n2 is None or n2 <= n1 + 300:
                    problems.append('second run after s1.fcs was replaced by a file with 850 more events: S1 reported with %s events, %s in the first run' % (n2, n1))
            res['problems'] = problems
            res['report_channels'] = [UNITS_RE.match(c).group(1) for c in samples.columns if UNITS_RE.match(c)]
            figs = []
            if case['plot']:
                want = (['plot_beads/density_hist_B1.png', 'plot_beads/clustering_B1.png'] +
                        ['plot_beads/populations_%s_B1.png' % c for c in ('FL1', 'FL3')] + ['plot_beads/std_crv_%s_B1.png' % c for c in ('FL1', 'FL3')]
                        if not case.get('minimal') else []) + ['plot_samples/%s.png' % idstr(s) for s in samples['ID'].dropna()]
                for f in want:
                    p = os.path.join(ex.dir, f)
                    if not (os.path.exists(p) and os.path.getsize(p) > 500 and open(p, 'rb').read(4) == b'\x89PNG'):
                        figs.append(f)
            res['missing_figures'] = figs
            return res
        finally:
            ex.cleanup()
            if getattr(self, '_rel_out_file', None) and os.path.exists(self._rel_out_file) and os.path.basename(self._rel_out_file).startswith('verif_rel_out_'):
                os.unlink(self._rel_out_file)
            import matplotlib.pyplot as plt
            plt.close('all')

    def example(self, case):
        tmp = tempfile.mkdtemp(prefix='verif_ex_')
        try:
            shutil.copytree(os.path.join(common.REPO, 'examples'), os.path.join(tmp, 'examples'))
            inp = os.path.join(tmp, 'examples', 'experiment.xlsx')
            with warnings.catch_warnings():
                warnings.simplefilter('ignore')
                FlowCal.excel_ui.run(input_path=inp, output_path=os.path.join(tmp, 'out.xlsx'), verbose=False, plot=case['plot'], hist_sheet=True)
            xl = pd.ExcelFile(os.path.join(tmp, 'out.xlsx'), engine='openpyxl')
            nfig = sum(len(f) for _, _, f in os.walk(os.path.join(tmp, 'examples', 'plot_samples'))) + \
                sum(len(f) for _, _, f in os.walk(os.path.join(tmp, 'examples', 'plot_beads')))
            out = pd.read_excel(os.path.join(tmp, 'out.xlsx'), sheet_name='Samples', engine='openpyxl')
            return {'sheets': list(xl.sheet_names), 'nfig': nfig, 'errors': [str(x) for x in out['Analysis Notes'] if str(x).startswith('ERROR')]}
        finally:
            shutil.rmtree(tmp, ignore_errors=True)

    def oracle(self, case, impl):
        if 'harness_err' in impl:
            return 'the workflow raised: ' + impl['harness_err']
        if case['k'] == 'roundtrip':
            ids = [i for i in impl['ids'] if i is not None]
            if len(set(ids)) != len(ids):
                return None if impl.get('read_err') == 'ValueError' else 'duplicated identifiers %s were not refused' % ids
            if 'read_err' in impl:
                return 'table with distinct identifiers refused'
            return None if impl['ok'] else 'write/read round trip: ' + str(impl['detail'])
        if case['k'] == 'example':
            if impl['sheets'] != ['Instruments', 'Beads', 'Samples', 'Histograms', 'About Analysis']:
                return 'example workbook: sheets %s' % impl['sheets']
            if impl['errors']:
                return 'example workbook: row errors %s' % impl['errors'][:2]
            return None if impl['nfig'] >= 20 else 'example workbook: only %d figures' % impl['nfig']
        if not impl.get('exists'):
            return 'no output workbook at the documented path (input %s.xlsx, explicit output path: %s); workbooks present: %s' % (
                case.get('inp_name'), not case['default_out'], impl.get('workbooks'))
        want = ['Instruments', 'Beads', 'Samples'] + (['Histograms'] if case['hist'] else []) + ['About Analysis']
        if impl['sheets'] != want:
            return 'output sheets %s, documented %s' % (impl['sheets'], want)
        if impl['problems']:
            return impl['problems'][0]
        if any(n.startswith('ERROR') for n in impl['notes']):
            return 'a row of a well-formed workbook reports %s' % [n for n in impl['notes'] if n.startswith('ERROR')][:1]
        if case['hist']:
            if impl.get('hist_head', [None, None])[:2] != ['Sample ID', 'Channel']:
                return 'Histograms sheet does not identify its rows: first columns are %s' % impl.get('hist_head')
            got = sorted([r[0], r[1]] for r in impl['hist_rows'] if r[2] == 'Counts')
            got_c = sorted([r[0], r[1]] for r in impl['hist_rows'] if r[2].startswith('Bin Centers'))
            if got != impl['expected_pairs'] or got_c != impl['expected_pairs']:
                return 'Histograms sheet rows %s / %s, expected one Counts and one Bin Centers row for each of %s' % (got, got_c, impl['expected_pairs'])
            for r in impl['hist_rows']:
                if r[2] == 'Counts' and not (0 < r[3] <= (impl['nev'].get(r[0]) or 0)):
                    return 'Histograms sheet: counts of %s %s sum to %s, the sample has %s events' % (r[0], r[1], r[3], impl['nev'].get(r[0]))
        if impl['missing_figures']:
            return 'documented figure files missing: %s' % impl['missing_figures']
        return None

    def model_request(self, case, impl):
        if case['k'] == 'roundtrip' and 'harness_err' not in impl:
            return {'op': 'read_filter', 'ids': impl['ids']}
        if case['k'] == 'run' and 'Samples_added' in impl:
            return {'op': 'schema', 'channels': impl['report_channels'], 'hist': case['hist']}
        return None

    def compare(self, case, impl, model):
        if 'driver_error' in model:
            return 'driver: ' + model['driver_error']
        if case['k'] == 'roundtrip':
            if 'err' in model or 'read_err' in impl:
                return None if ('err' in model) == ('read_err' in impl) else 'read_table %s vs model %s' % (impl.get('read_err', 'ok'), model.get('err', 'ok'))
            return None if [k[0] for k in model['kept']] == [i for i in impl['ids'] if i is not None] else 'kept ids differ'
        if model['sheets'] != impl['sheets']:
            return 'sheets: model %s vs impl %s' % (model['sheets'], impl['sheets'])
        if model['columns'] != impl['Samples_added']:
            return 'added sample columns: model %s vs impl %s' % (model['columns'][:6], impl['Samples_added'][:6])
        return None

    def nontrivial_key(self, case, impl):
        if case['k'] == 'roundtrip':
            return ('rt', case['nrows'], case['dup'], case['noid'], case['seed'] % 50)
        return (case['k'], case.get('plot'), case.get('hist'), case.get('ninst'), case.get('arity'))
