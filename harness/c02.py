"""C02 — Bead calibration end to end yields the true RFI-to-MEF conversion."""
import json
import math
import os

import numpy as np

import common
import fcsgen
import samples
import FlowCal
from c03 import bits, unbits

np.seterr(all='ignore')
HERE = os.path.dirname(os.path.abspath(__file__))


def make_beads(case):
    """Synthetic bead sample inside the property's envelope; returns (FCSData, truth dict)."""
    r = np.random.RandomState(case['seed'] % (1 << 31))
    K = case['K']
    nch = case['nch']
    sizes = case['sizes']
    chans = (['FL3', 'FL1', 'FL2'] if case.get('names') == 'unsorted' else ['FL1', 'FL2', 'FL3'])[:nch]
    laws = []
    ratio = case['ratio']
    mefs = []
    means = []
    for c in range(nch):
        m = r.uniform(0.9, 1.2); b = r.uniform(case.get('b_min', 1), 5)
        top = 10 ** r.uniform(4.6, 5.1)                      # brightest bead in RFI
        if case.get('top_fixed'):
            top = float(case['top_fixed'])
        if case.get('dim') and c == 0:
            # channel 0 acquired at a low gain: its dimmest subpopulation is of order 1 a.u. on the 18-bit range (slope and intercept as everywhere)
            top = case['dim'] * ratio ** (K - 1)
        rfi = [top / ratio ** (K - 1 - j) for j in range(K)]
        first = 1 if case['blank'] else 0
        E_dim = math.exp(b) * rfi[first] ** m                 # MEF + autofluorescence of the dimmest non-blank bead
        af = r.uniform(*case.get('af_frac', (0.05, 0.3))) * E_dim          # always below half the dimmest non-blank bead (MEF + autofluorescence)
        lad = [math.exp(b) * x ** m - af for x in rfi]
        if case['blank']:
            lad[0] = 0.0
            rfi[0] = (af / math.exp(b)) ** (1 / m)
        laws.append((m, b, af))
        mefs.append(lad)
        means.append(rfi)
    cv = case['cv']
    cols = []
    label = np.concatenate([np.full(n, j) for j, n in enumerate(sizes)])
    for c in range(nch):
        vals = [means[c][j] * np.exp(r.normal(0, cv, size=sizes[j])) for j in range(K)]
        cols.append(np.concatenate(vals))
    data = np.stack(cols, axis=1)
    res = case.get('res', 262144)
    if case['saturate']:
        # the brightest population piles up at the detector limit in channel 0
        scale = (res - 1) / np.median(data[label == K - 1, 0]) * 1.3
        data[:, 0] = data[:, 0] * scale
        m, b, af = laws[0]
        laws[0] = (m, b - m * math.log(scale), af)          # rfi' = scale*rfi  =>  log(mef+af) = m log(rfi') + b - m log(scale)
    piled = [[0, K - 1]] if case['saturate'] else []
    data = np.clip(data, 0, res - 1)
    perm = r.permutation(len(label))
    order = case.get('order', 'shuffled')
    if order == 'grouped':
        perm = np.argsort(label, kind='stable')
    elif order == 'grouped_desc':
        perm = np.argsort(-label, kind='stable')
    data, label = data[perm], label[perm]
    import struct
    if case.get('logamp'):
        # a 10-bit log amplifier over four decades: the file holds channel numbers, the analysis runs on the RFI values (range [1, ~9910]);
        # channel 0 is scaled so that its dimmest population lies below RFI 1 and piles up at the lower detector limit
        sc0 = 0.55 / np.median(data[label == 0, 0])
        data[:, 0] = data[:, 0] * sc0
        m, b, af = laws[0]
        laws[0] = (m, b - m * math.log(sc0), af)
        for c in range(1, nch):
            scc = 6000.0 / np.median(data[label == K - 1, c])
            data[:, c] = data[:, c] * scc
            m, b, af = laws[c]
            laws[c] = (m, b - m * math.log(scc), af)
        ch = np.clip(np.round(256.0 * np.log10(np.maximum(data, 1e-9))), 0, 1023).astype(int)
        piled = [[0, 0]]
        spec = {'version': 'FCS3.0', 'delim': '/', 'datatype': 'I', 'byteord': '1,2,3,4', 'widths': [16] * nch, 'ranges': [1024] * nch,
                'events': [[int(v) for v in row] for row in ch], 'names': chans, 'pne': {str(i + 1): '4,1' for i in range(nch)}}
        d, _ = samples.load(spec, name='c02_%d.fcs' % (case['seed'] % 7))
        d = FlowCal.transform.to_rfi(d)
    elif case.get('intdata'):
        # an 18-bit digital instrument: linear amplifier, integer events, analysed as loaded (integer container)
        spec = {'version': 'FCS3.0', 'delim': '/', 'datatype': 'I', 'byteord': '1,2,3,4', 'widths': [case.get('int_width', 32)] * nch, 'ranges': [res] * nch,
                'events': [[int(round(v)) for v in row] for row in data], 'names': chans, 'pne': {str(i + 1): '0,0' for i in range(nch)}}
        d, _ = samples.load(spec, name='c02_%d.fcs' % (case['seed'] % 7))
    else:
        data = data.astype(np.float32)
        spec = {'version': 'FCS3.0', 'delim': '/', 'datatype': 'F', 'byteord': '1,2,3,4', 'widths': [32] * nch, 'ranges': [res] * nch,
                'events': [[struct.unpack('<I', struct.pack('<f', v))[0] for v in row] for row in data], 'names': chans,
                'pne': {str(i + 1): '0,0' for i in range(nch)}}
        d, _ = samples.load(spec, name='c02_%d.fcs' % (case['seed'] % 7))
    mef_values = [list(l) for l in mefs]
    for (c, j) in case['unknown']:
        if c < nch and j < K:
            mef_values[c][j] = None if (c + j) % 2 else float('nan')
    return d, {'label': label, 'laws': laws, 'mefs': mefs, 'mef_values': mef_values, 'chans': chans, 'piled': piled}


class Prop(common.PropertyCheck):
    pid = 'C02'
    rule = ("synthetic bead samples inside the stated envelope (6..8 subpopulations, adjacent ratio 2.5..4, CV 2..5 %, 200..800 events each, shuffled, slope "
            "0.9..1.2, intercept 1..5, autofluorescence below half the dimmest non-blank bead, 1..3 channels with independent laws, optional blank / saturated "
            "(channel names in sorted or unsorted order, clustering channels explicit or defaulted) "
            "brightest population / unknown MEF entries, clustering-channel choices, median or mean): (i) clustering replaced by the true labels randomly "
            "renamed — pairing, exclusion, list consistency compared with the Lean pipeline and with the fit to the true subpopulation statistics; (ii) the real "
            "Gaussian-mixture clustering under a fixed seed — grouping vs the generating partition, conversion within 10 % of the truth, reproducibility, "
            "event-order invariance of the outcome. Non-trivial = distinct (K, #channels, blank, saturated, unknown pattern, size profile, statistic).")
    batch_size = 4
    exploration_only = ["that the Gaussian mixture recovers the generating partition and that the end-to-end conversion is within 10 % (stage ii) are sweeps with known ground truth, not theorems"]

    def gen_cases(self):
        rng = self.rng
        n = self.budget(10, 220)
        # files whose events are grouped by subpopulation (concatenated acquisitions), more than 3000 events
        for K, sz, order in ((7, 500, 'grouped'), (8, 430, 'grouped_desc')):
            yield {'k': 'beads', 'K': K, 'nch': 2, 'sizes': [sz] * K, 'ratio': rng.uniform(2.5, 4.0), 'cv': rng.uniform(0.02, 0.05), 'blank': False, 'saturate': False,
                   'unknown': [], 'stat': 'median', 'clust': 'all', 'names': 'sorted', 'mef_form': 'lists', 'seed': rng.randrange(1 << 30), 'stream': 'main', 'order': order}
        base_case = {'k': 'beads', 'K': 6, 'nch': 2, 'sizes': [450] * 6, 'ratio': 3.0, 'cv': 0.03, 'blank': False, 'saturate': False, 'unknown': [], 'stat': 'median',
                     'clust': 'all', 'names': 'sorted', 'mef_form': 'lists', 'stream': 'main', 'order': 'shuffled'}
        # a caller-owned 2-D table of manufacturer values reused across calls while a population is rejected at the detector limit
        yield dict(base_case, mef_form='ndarray', saturate=True, K=7, sizes=[400] * 7, seed=rng.randrange(1 << 30))
        # three clustering channels, subpopulations of more than 500 events, diagnostic plots on: same outcome as without plots
        yield dict(base_case, nch=3, K=8, sizes=[620] * 8, plot=True, seed=rng.randrange(1 << 30))
        # default clustering / selection after earlier calls that passed explicit rescaling options
        yield dict(base_case, K=7, sizes=[420] * 7, warmup=True, seed=rng.randrange(1 << 30))
        # exactly three subpopulations left for the fit (brightest saturated, two values unknown)
        for _ in range(3):
            yield dict(base_case, K=6, saturate=True, unknown=[(0, 1), (0, 3)], nch=1, af_frac=(0.35, 0.45), seed=rng.randrange(1 << 30))
        # corner of the envelope: tightly spaced populations, autofluorescence close to half the dimmest bead, large intercept, no blank
        for _ in range(self.budget(8, 24)):
            yield dict(base_case, ratio=rng.uniform(2.5, 2.8), af_frac=(0.42, 0.49), b_min=4.2, cv=0.004, nch=1, seed=rng.randrange(1 << 30))
        for i in range(n):
            K = rng.choice([6, 7, 8])
            equal = rng.random() < 0.6
            base = rng.randrange(250, 700)
            sizes = [base] * K if equal else [int(base * rng.uniform(0.85, 1.15)) for _ in range(K)]
            nch = rng.choice([1, 2, 2, 3])
            unk = []
            if rng.random() < 0.5:
                unk = [(rng.randrange(nch), rng.randrange(K))]
            yield {'k': 'beads', 'K': K, 'nch': nch, 'sizes': sizes, 'ratio': rng.uniform(2.5, 4.0), 'cv': rng.uniform(0.02, 0.05),
                   'blank': rng.random() < 0.4, 'saturate': rng.random() < 0.3, 'unknown': unk, 'stat': rng.choice(['median', 'median', 'mean']),
                   'clust': rng.choice(['all', 'first', 'default']), 'names': rng.choice(['sorted', 'unsorted']), 'mef_form': rng.choice(['lists', 'ndarray']), 'seed': rng.randrange(1 << 30), 'stream': 'main',
                   'order': rng.choice(['shuffled', 'shuffled', 'grouped', 'grouped_desc'])}
        # fixed (seed independent) stream with strongly unequal population sizes 200..800
        fr = np.random.RandomState(20260927)
        for i in range(self.budget(6, 40)):
            K = int(fr.choice([6, 7, 8]))
            yield {'k': 'beads', 'K': K, 'nch': 2, 'sizes': [int(fr.randint(200, 801)) for _ in range(K)], 'ratio': float(fr.uniform(2.5, 4.0)),
                   'cv': float(fr.uniform(0.02, 0.05)), 'blank': False, 'saturate': False, 'unknown': [], 'stat': 'median', 'clust': 'all',
                   'seed': int(fr.randint(1 << 30)), 'stream': 'unequal', 'idx': i}

        # a log amplifier: after conversion to RFI the lower range limit is 1, not 0; the dimmest subpopulation is piled up there
        for nchx in (1, 2):
            yield dict(base_case, K=8, sizes=[450] * 8, ratio=3.2, nch=nchx, logamp=True, clust='first', seed=1000 + nchx)
        # NumPy reductions as the statistic, several channels calibrated at once
        yield dict(base_case, K=6, sizes=[450] * 6, nch=2, stat='np_median', seed=5000)
        yield dict(base_case, K=7, sizes=[450] * 7, nch=3, stat='np_mean', seed=5001)
        # a blank population (manufacturer value 0) in a table that marks an unknown value with None
        yield dict(base_case, K=7, sizes=[450] * 7, nch=2, blank=True, unknown=[(1, 2)], seed=4000)
        yield dict(base_case, K=7, sizes=[450] * 7, nch=2, blank=True, unknown=[(0, 4), (1, 3)], seed=4001)
        # integer samples (events kept in the integer container they were loaded into)
        for i in range(2):
            yield dict(base_case, K=6 + i, sizes=[450] * (6 + i), nch=1 + i, intdata=True, clust=['all', 'first'][i], saturate=bool(i), seed=3000 + i)
        # a clustering function whose labels are not 0 .. n-1 (1-based as scipy's fcluster numbers them; arbitrary distinct integers)
        yield dict(base_case, nch=1, K=6, sizes=[450] * 6, labels='one_based', seed=6100)
        yield dict(base_case, nch=2, K=7, sizes=[420] * 7, labels='offset', unknown=[(1, 2)], seed=6101)
        # diagnostic plots on while subpopulations are left out of the fit in the first of two channels (brightest piled up, one value unknown in the middle)
        yield dict(base_case, nch=2, K=7, sizes=[420] * 7, saturate=True, unknown=[(0, 3)], plot=True, seed=6000)
        # integer containers whose brightest subpopulations lie above 2**16 (32-bit files) resp. above 2**8 (16-bit files): squares of events do not fit the container
        yield dict(base_case, K=6, sizes=[450] * 6, ratio=2.5, nch=1, intdata=True, top_fixed=125000, seed=3010)
        yield dict(base_case, K=7, sizes=[400] * 7, ratio=2.6, nch=2, intdata=True, top_fixed=120000, clust='first', seed=3011)
        yield dict(base_case, K=6, sizes=[450] * 6, ratio=3.0, nch=1, intdata=True, int_width=16, res=65536, top_fixed=50000, seed=3012)
        # the clustering channel acquired at a low gain (dimmest subpopulations around 1 a.u.), a second channel calibrated from the same clusters
        for i, dim in enumerate((0.6, 1.0, 0.8)):
            yield dict(base_case, K=8, sizes=[500] * 8, ratio=3.0, nch=2, dim=dim, clust='first', seed=2000 + i)

        # the fit stage alone on exact medians (thousands of bead sets with sizeable autofluorescence)
        yield {'k': 'fit_sweep', 'n': self.budget(5000, 40000), 'seed': rng.randrange(1 << 30)}
        # the same with only five subpopulations taking part (the brightest piled up at the detector limit or of unknown value): a fixed
        # stream of single bead sets, so that a set the fit gets wrong is identified by its index and seed
        fw = np.random.RandomState(424242)
        for i in range(3000):
            yield {'k': 'fit_sweep', 'n': 1, 'seed': int(fw.randint(1 << 30)), 'few': True, 'stream': 'fewfit', 'idx': i}
        # the selection rule on its own: subpopulations anywhere between (and piled up at) the range limits of a one-channel sample
        for i in range(self.budget(40, 400)):
            yield {'k': 'selection', 'seed': rng.randrange(1 << 30), 'npop': rng.randrange(1, 9), 'range': rng.choice([1024, 4096, 262144])}

    def run_fit_sweep(self, case):
        """the fit stage alone on exact medians of many bead sets of the envelope (autofluorescence up to half the dimmest bead): each curve within 10 %"""
        import warnings
        r = np.random.RandomState(case['seed'] % (1 << 31))
        worst, nbad, first = 0.0, 0, None
        for i in range(case['n']):
            K = int(r.choice([6, 7, 8]))
            m, b = r.uniform(0.9, 1.2), r.uniform(1, 5)
            ratio = r.uniform(2.5, 4.0)
            top = 10 ** r.uniform(4.6, 5.1)
            rfi = np.array([top / ratio ** (K - 1 - j) for j in range(K)])
            af = r.uniform(0.3, 0.5) * math.exp(b) * rfi[0] ** m
            mef = np.exp(b) * rfi ** m - af
            if case.get('few'):
                # at most five of the subpopulations take part (the brightest piled up at the detector limit, values of others unknown); three sets of this stream were 11-12 % off before fix 18 (DESIGN section 7)
                pool = K - 1 - int(r.randint(0, 2))          # the brightest one or two never take part
                keep = sorted(r.choice(pool, size=min(pool, 5), replace=False).tolist())
                rfi, mef = rfi[keep], mef[keep]
            with warnings.catch_warnings():
                warnings.simplefilter('ignore')
                try:
                    sc = FlowCal.mef.fit_beads_autofluorescence(rfi, mef)[0]
                except Exception as e:
                    return {'sweep_err': 'fit %d raised %s' % (i, type(e).__name__)}
            span = np.exp(np.linspace(np.log(rfi[0]), np.log(rfi[-1]), 30))
            dev = float(np.max(np.abs(np.asarray(sc(span)) / (np.exp(b) * span ** m) - 1)))
            if not dev <= 0.10:
                nbad += 1
                if first is None:
                    first = {'K': K, 'm': float(m), 'b': float(b), 'af': float(af), 'ratio': float(ratio), 'top': float(top), 'dev': dev}
            worst = max(worst, dev if dev == dev else 9e9)
        return {'sweep': {'n': case['n'], 'worst': worst, 'nbad': nbad, 'first': first}}

    def run_selection(self, case):
        import inspect, struct
        r = np.random.RandomState(case['seed'] % (1 << 31))
        R = case['range']
        pops_vals = []
        for j in range(case['npop']):
            kind = r.choice(['inside', 'inside', 'low_pile', 'high_pile', 'near_low', 'near_high', 'wide'])
            n = int(r.choice([1, 5, 60]))
            if kind == 'low_pile':
                v = np.zeros(n)
            elif kind == 'high_pile':
                v = np.full(n, float(R - 1))
            elif kind == 'near_low':
                v = np.abs(r.normal(0.02 * R, 0.01 * R, size=n))
            elif kind == 'near_high':
                v = np.minimum(r.normal(0.975 * R, 0.01 * R, size=n), R - 1)
            elif kind == 'wide':
                v = r.uniform(0, R - 1, size=n)
            else:
                v = r.normal(r.uniform(0.1, 0.9) * R, r.uniform(0.001, 0.05) * R, size=n).clip(0, R - 1)
            pops_vals.append(np.asarray(v, dtype=np.float32))
        allv = np.concatenate(pops_vals)
        spec = {'version': 'FCS3.0', 'delim': '/', 'datatype': 'F', 'byteord': '1,2,3,4', 'widths': [32], 'ranges': [R],
                'events': [[struct.unpack('<I', struct.pack('<f', float(x)))[0]] for x in allv], 'names': ['FL1'], 'pne': {'1': '0,0'}}
        d, _ = samples.load(spec, name='c02_sel.fcs')
        pops, k = [], 0
        for v in pops_vals:
            pops.append(d[k:k + len(v), 0]); k += len(v)
        sig = inspect.signature(FlowCal.mef.selection_std).parameters
        nl, nh = float(sig['n_std_low'].default), float(sig['n_std_high'].default)
        try:
            mask = [bool(x) for x in FlowCal.mef.selection_std(pops, scale='linear')]
        except Exception as e:
            return {'err': type(e).__name__ + ':' + str(e)[:80]}
        stats = []
        for v in pops_vals:
            v64 = np.asarray(v, dtype=np.float64)
            # the library reduces the single-precision events in single precision; both evaluations are recorded
            stats.append([float(np.mean(v)), float(max(np.std(v), 0.005)), float(np.mean(v64)), float(max(np.std(v64), 0.005))])
        lim = [float(x) for x in d.range(0)]
        # one threshold given explicitly (in channel units, like the events), the other left to its default; default (logicle) rescaling
        one_sided = {}
        for nm, kw in (('high_only', {'high': 0.95 * R}), ('low_only', {'low': 0.05 * R}), ('both', {'low': 0.05 * R, 'high': 0.95 * R})):
            try:
                one_sided[nm] = [bool(x) for x in FlowCal.mef.selection_std(pops, **kw)]
            except Exception as e:
                one_sided[nm] = 'raised ' + type(e).__name__
        return {'one_sided': one_sided, 'range_top': float(R - 1), 'mask': mask, 'stats': stats, 's0': lim[0], 's1': lim[1], 'nl': nl, 'nh': nh,
                'piled': [bool(np.all(v == 0) or np.all(v == R - 1)) for v in pops_vals]}

    def run_impl(self, case):
        if case.get('k') == 'selection':
            return self.run_selection(case)
        if case.get('k') == 'fit_sweep':
            return self.run_fit_sweep(case)
        try:
            d, tr = make_beads(case)
        except Exception as e:
            import traceback
            return {'harness_err': traceback.format_exc()[-300:]}
        K, nch = case['K'], case['nch']
        chans = tr['chans']
        clch = chans if case['clust'] == 'all' else None if case['clust'] == 'default' else [chans[0]]
        # NumPy's own reductions are valid statistic functions too (each subpopulation's channel is handed over as a 1-D array)
        statf = {'median': FlowCal.stats.median, 'mean': FlowCal.stats.mean, 'np_median': np.median, 'np_mean': np.mean}[case['stat']]
        out = {'K': K}
        rr = np.random.RandomState(case['seed'] % 1000)
        rename = rr.permutation(K)
        true_labels = rename[tr['label']]
        if case.get('labels') == 'offset':
            true_labels = 3 * true_labels + 1          # a clustering function that numbers its clusters 1, 4, 7, ... (any distinct integers are labels)
        elif case.get('labels') == 'one_based':
            true_labels = true_labels + 1

        # the caller's MEF table: nested lists, or one 2-D float array reused across all calls of this case (unknown entries as NaN)
        mv_arg = tr['mef_values']
        mv_saved = None
        if case.get('mef_form') == 'ndarray':
            mv_arg = np.array([[np.nan if v is None else float(v) for v in l] for l in tr['mef_values']], dtype=np.float64)
            mv_saved = mv_arg.copy()

        def run(clustering_fxn, data=d, seed=1, plot=False):
            np.random.seed(seed)
            kw = {}
            if plot:
                import tempfile
                kw = {'plot': True, 'plot_dir': tempfile.mkdtemp(prefix='verif_c02_')}
            try:
                return FlowCal.mef.get_transform_fxn(data, mv_arg, chans, clustering_fxn=clustering_fxn, clustering_channels=clch,
                                                     statistic_fxn=statf, full_output=True, **kw)
            finally:
                if plot:
                    import shutil
                    import matplotlib.pyplot as plt
                    plt.close('all')
                    shutil.rmtree(kw['plot_dir'], ignore_errors=True)

        def summarise(res):
            return {'labels': [int(x) for x in res.clustering['labels']],
                    'stats': [[bits(v) for v in s] for s in res.statistic['values']],
                    'rfi': [[bits(v) for v in s] for s in res.selection['rfi']], 'mef': [[bits(v) for v in s] for s in res.selection['mef']],
                    'params': [[float(v) for v in p] for p in res.fitting['beads_params']]}
        # earlier calls in the same process with explicit rescaling options (settings must not carry over to later default calls)
        if case.get('warmup'):
            try:
                np.random.seed(3)
                FlowCal.mef.get_transform_fxn(d, mv_arg, chans, clustering_channels=clch, clustering_params={'scale': 'log'})
                FlowCal.mef.get_transform_fxn(d, mv_arg, chans, clustering_channels=clch, selection_params={'scale': 'linear'})
            except Exception:
                pass
        # (i) injected true labels
        try:
            r1 = run(lambda data, n, **kw: true_labels.copy())
            out['inj'] = summarise(r1)
            # the returned function applied to the same events with the columns in another order converts the same channels
            if nch >= 2:
                order = list(reversed(range(d.shape[1])))
                a1 = np.asarray(r1.transform_fxn(d, chans))[:, order]
                a2 = np.asarray(r1.transform_fxn(d[:, order], chans))
                out['layout_ok'] = bool(np.array_equal(a1, a2))
                # and the order in which the channels to convert are listed does not matter
                a3 = np.asarray(r1.transform_fxn(d, list(reversed(chans))))
                a4 = np.asarray(r1.transform_fxn(d, chans[1:] + chans[:1]))
                out['request_order_ok'] = bool(np.array_equal(a3, np.asarray(r1.transform_fxn(d, chans))) and np.array_equal(a4, a3))
        except Exception as e:
            out['inj_err'] = type(e).__name__ + ':' + str(e)[:100]
            return out
        # the last channel calibrated on its own while the clustering still uses every channel (one of which has a subpopulation piled up at its limit):
        # the subpopulations taking part in its fit are those of the joint calibration -- what happens in a clustering-only channel does not matter
        if case['saturate'] and nch >= 2:
            try:
                np.random.seed(1)
                rsub = FlowCal.mef.get_transform_fxn(d, [mv_arg[-1]], [chans[-1]], clustering_fxn=lambda data, n, **kw: true_labels.copy(), clustering_channels=chans,
                                                     statistic_fxn=statf, full_output=True)
                out['sub_same'] = bool([bits(v) for v in rsub.selection['rfi'][0]] == out['inj']['rfi'][-1] and [bits(v) for v in rsub.selection['mef'][0]] == out['inj']['mef'][-1])
            except Exception as e:
                out['sub_same'] = 'raised ' + type(e).__name__ + ': ' + str(e)[:60]
        # the same with the selection step switched off (selection_fxn=None): unknown entries still take no part, every other subpopulation does
        try:
            np.random.seed(1)
            rns = FlowCal.mef.get_transform_fxn(d, mv_arg, chans, clustering_fxn=lambda data, n, **kw: true_labels.copy(), clustering_channels=clch,
                                                statistic_fxn=statf, selection_fxn=None, full_output=True)
            out['nosel'] = {'rfi': [[bits(v) for v in s] for s in rns.selection['rfi']], 'mef': [[bits(v) for v in s] for s in rns.selection['mef']],
                            'params_finite': bool(all(np.all(np.isfinite(np.asarray(p, dtype=float))) for p in rns.fitting['beads_params']))}
        except Exception as e:
            out['nosel'] = {'err': type(e).__name__ + ':' + str(e)[:80]}
        # independent expectation for (i)
        exp_stats, exp_sel = [], []
        pops_true = [np.asarray(d)[tr['label'] == j] for j in range(K)]
        for ci, c in enumerate(chans):
            st = [float(statf(p[:, ci])) for p in pops_true]
            exp_stats.append([bits(v) for v in st])
            selmask = FlowCal.mef.selection_std([d[tr['label'] == j][:, c] for j in range(K)])
            exp_sel.append([bool(x) for x in selmask])
        out['exp_stats'] = exp_stats
        out['piled'] = tr['piled']
        out['exp_sel'] = exp_sel
        out['mef_values'] = [[None if (v is None or (isinstance(v, float) and math.isnan(v))) else bits(v) for v in l] for l in tr['mef_values']]
        # accuracy of the conversion from run (i) against the truth, over the calibrated span
        def accuracy(res):
            worst = 0.0
            for ci, c in enumerate(chans):
                m, b, af = tr['laws'][ci]
                sel_rfi = np.asarray(res.selection['rfi'][ci])
                if len(sel_rfi) < 2:
                    continue
                span = np.exp(np.linspace(np.log(max(sel_rfi.min(), 1.0)), np.log(sel_rfi.max()), 40))
                true = np.exp(b) * span ** m
                got = np.asarray(res.fitting['std_crv'][ci](span))
                dev = float(np.max(np.abs(got / true - 1)))
                if not math.isfinite(dev):
                    return float('inf')        # a curve that is not a number somewhere on the calibrated span is as wrong as can be
                worst = max(worst, dev)
            return worst
        out['inj_acc'] = accuracy(r1)
        # (ii) real clustering
        try:
            r2 = run(FlowCal.mef.clustering_gmm, seed=7)
            out['gmm'] = summarise(r2)
            out['gmm_acc'] = accuracy(r2)
            lab = np.asarray(r2.clustering['labels'])
            # grouping vs generating partition (up to renaming)
            mapping = {}
            ok = True
            for l, t in zip(lab, tr['label']):
                if mapping.setdefault(int(l), int(t)) != int(t):
                    ok = False
                    break
            out['partition_recovered'] = bool(ok and len(set(mapping.values())) == K)
            out['misassigned'] = int(sum(1 for l, t in zip(lab, tr['label']) if mapping.get(int(l)) != int(t))) if not ok else 0
            r2b = run(FlowCal.mef.clustering_gmm, seed=7)
            out['reproducible'] = summarise(r2b) == out['gmm']
            perm = np.random.RandomState(5).permutation(d.shape[0])
            r2c = run(FlowCal.mef.clustering_gmm, data=d[perm], seed=7)
            s2c = summarise(r2c)
            def closeb(la, lb):
                return len(la) == len(lb) and all(len(a) == len(b) and all(abs(unbits(x) - unbits(y)) <= 1e-5 * max(1, abs(unbits(y))) for x, y in zip(a, b)) for a, b in zip(la, lb))
            # the property asks for the same grouping / pairing and a conversion within 10 % of the truth in every event order; the fitted
            # parameters themselves are not compared (the optimiser's stopping point moves with the last bit of the single-precision means)
            out['order_invariant'] = bool(closeb(s2c['rfi'], out['gmm']['rfi']) and s2c['mef'] == out['gmm']['mef'] and accuracy(r2c) <= 0.10)
        except Exception as e:
            out['gmm_err'] = type(e).__name__ + ':' + str(e)[:100]
        if case.get('plot'):
            try:
                rp = run(lambda data, n, **kw: true_labels.copy(), plot=True)
                out['plot_same'] = summarise(rp) == out['inj']
            except Exception as e:
                out['plot_same'] = 'err:' + type(e).__name__ + ':' + str(e)[:80]
        if mv_saved is not None:
            out['mef_table_unchanged'] = bool(np.array_equal(mv_arg, mv_saved, equal_nan=True))
        return out

    def post(self):
        fcsgen.cleanup()

    def known(self):
        try:
            return json.load(open(os.path.join(common.ROOT, 'known_findings.json')))
        except Exception:
            return {'open': []}

    def oracle_selection(self, case, impl):
        if 'err' in impl:
            return 'selection_std raised %s' % impl['err']
        s0, s1, nl, nh = impl['s0'], impl['s1'], impl['nl'], impl['nh']
        lo, hi = s0 + 0.015 * (s1 - s0), s0 + 0.985 * (s1 - s0)
        for j, (got, st, piled) in enumerate(zip(impl['mask'], impl['stats'], impl['piled'])):
            if piled and got:
                return 'subpopulation %d has all its events at a range limit (%s) but was selected' % (j, st[:2])
            verdicts = set()
            for mean, sd in ((st[0], st[1]), (st[2], st[3])):
                a, b = mean - nl * sd - lo, hi - (mean + nh * sd)
                if min(abs(a), abs(b)) < 1e-6 * (s1 - s0):
                    verdicts |= {True, False}          # on a threshold to within rounding: either verdict
                verdicts.add(a > 0 and b > 0)
            if got not in verdicts:
                return 'subpopulation %d (mean %r, std %r) of a sample with range [%r, %r]: selected=%s, the documented rule (1.5%% inside the limits, %g / %g standard deviations) says %s' % (
                    j, st[2], st[3], s0, s1, got, nl, nh, sorted(verdicts))
        # explicit thresholds are given in the units of the events: a subpopulation piled up beyond one is excluded, one far inside both is kept
        top = impl['range_top']
        for nm, msk in impl['one_sided'].items():
            if not isinstance(msk, list):
                return 'selection_std with explicit thresholds (%s) %s' % (nm, msk)
            for j, (got, st) in enumerate(zip(msk, impl['stats'])):
                mean, sd = st[2], st[3]
                if nm in ('high_only', 'both') and mean >= 0.97 * (top + 1) and got:
                    return 'explicit high threshold at 95%% of the range (%s): subpopulation %d with mean %r was selected' % (nm, j, mean)
                if nm in ('low_only', 'both') and mean <= 0.03 * (top + 1) and got:
                    return 'explicit low threshold at 5%% of the range (%s): subpopulation %d with mean %r was selected' % (nm, j, mean)
                if 0.3 * top <= mean <= 0.7 * top and sd <= 0.06 * top and not got:
                    return 'explicit thresholds (%s): subpopulation %d with mean %r and std %r, far inside both, was not selected' % (nm, j, mean, sd)
        return None

    def oracle(self, case, impl):
        if case.get('k') == 'selection':
            return self.oracle_selection(case, impl)
        if case.get('k') == 'fit_sweep':
            if 'sweep_err' in impl:
                return impl['sweep_err']
            sw = impl['sweep']
            if sw['nbad']:
                return 'the fit to the exact medians of %d of %d bead sets of the envelope is more than 10 %% off the true conversion (first: %s)' % (sw['nbad'], sw['n'], sw['first'])
            return None
        if 'harness_err' in impl:
            return 'harness: ' + impl['harness_err']
        tag = 'sizes=%s K=%d nch=%d blank=%s sat=%s unknown=%s order=%s seed=%d' % (case['sizes'], case['K'], case['nch'], case['blank'], case['saturate'], case['unknown'], case.get('order'), case['seed'])
        if 'inj_err' in impl:
            return 'with the true grouping injected the workflow raised %s (%s)' % (impl['inj_err'], tag)
        inj = impl['inj']
        K = case['K']
        if len(inj['labels']) != sum(case['sizes']):
            return 'one label per event violated'
        for ci in range(case['nch']):
            if len(inj['stats'][ci]) != K:
                return 'channel %d: %d statistics for %d subpopulations' % (ci, len(inj['stats'][ci]), K)
            if inj['stats'][ci] != impl['exp_stats'][ci]:
                return 'channel %d: population statistics are not those of the true subpopulations in order of increasing brightness (%s)' % (ci, tag)
            exp_r = [s for s, m, k in zip(impl['exp_stats'][ci], impl['mef_values'][ci], impl['exp_sel'][ci]) if k and m is not None]
            exp_m = [m for s, m, k in zip(impl['exp_stats'][ci], impl['mef_values'][ci], impl['exp_sel'][ci]) if k and m is not None]
            if inj['rfi'][ci] != exp_r or inj['mef'][ci] != exp_m:
                return 'channel %d: selected (RFI, MEF) pairs differ from "own value, unknown/saturated excluded" (%s)' % (ci, tag)
            if len(inj['rfi'][ci]) != len(inj['mef'][ci]):
                return 'selected RFI and MEF lists differ in length'
            ns = impl.get('nosel')
            if ns is not None and 'err' not in ns:
                ns_r = [s for s, m in zip(impl['exp_stats'][ci], impl['mef_values'][ci]) if m is not None]
                ns_m = [m for m in impl['mef_values'][ci] if m is not None]
                if ns['rfi'][ci] != ns_r or ns['mef'][ci] != ns_m:
                    return 'channel %d, selection switched off: the pairs handed to the fit are not "every subpopulation with a known value, with its own value" (%s)' % (ci, tag)
        # known by construction, independent of the library's own selection: a subpopulation piled up at a detector limit takes no part in the fit
        for ci, j in impl.get('piled', []):
            mv = impl['mef_values'][ci][j]
            if mv is not None and mv in inj['mef'][ci]:
                return 'channel %d: subpopulation %d is piled up at a detector limit but took part in the fit (%s)' % (ci, j, tag)
        if impl.get('sub_same') not in (None, True):
            return 'calibrating the last channel alone (clustering on all channels) selects other subpopulations for its fit than the joint calibration does (%s; %s)' % (impl['sub_same'], tag)
        if not (impl['inj_acc'] <= 0.10):
            return 'with the true grouping the conversion is %.1f%% off the truth (%s)' % (100 * impl['inj_acc'], tag)
        # stage (ii): the real clustering
        problems = []
        if 'gmm_err' in impl:
            problems.append('workflow with clustering_gmm raised %s' % impl['gmm_err'])
        else:
            if not impl['partition_recovered']:
                problems.append('clustering_gmm did not recover the generating subpopulations (%d events misassigned)' % impl.get('misassigned', -1))
            elif impl['gmm']['rfi'] != inj['rfi'] or impl['gmm']['mef'] != inj['mef']:
                problems.append('partition recovered but selected pairs differ from the fit to the true subpopulations')
            if not (impl['gmm_acc'] <= 0.10):
                problems.append('conversion %.1f%% off the truth' % (100 * impl['gmm_acc']))
            if not impl['reproducible']:
                problems.append('not reproducible for a fixed random seed')
            if impl['partition_recovered'] and not impl['order_invariant']:
                problems.append('outcome depends on the order of events')
        if impl.get('layout_ok') is False:
            problems.append('the returned transformation converts other columns when the sample has its channels in another order than the bead file')
        if impl.get('request_order_ok') is False:
            problems.append('the returned transformation gives other values when the channels to convert are listed in another order than they were calibrated in')
        if impl.get('plot_same') not in (None, True):
            problems.append('with the diagnostic plots switched on the statistics / selected pairs / fit differ from the run without plots (%s)' % impl['plot_same'])
        if impl.get('mef_table_unchanged') is False:
            problems.append("the caller's table of manufacturer values was overwritten (a later calibration with the same table would drop other subpopulations)")
        if problems:
            return 'clustering stage: %s (%s)' % ('; '.join(problems), tag)
        return None

    def signature_matches(self, sig, case, msg):
        return case.get('stream') == sig.get('stream') and case.get('idx') == sig.get('idx') and case.get('seed') == sig.get('seed')

    def model_request(self, case, impl):
        if case.get('k') == 'fit_sweep':
            return None
        if case.get('k') == 'selection':
            if 'err' in impl:
                return None
            return {'op': 'selection', 's0': bits(impl['s0']), 's1': bits(impl['s1']), 'nlow': bits(impl['nl']), 'nhigh': bits(impl['nh']),
                    'pops': [[bits(st[2]), bits(st[3])] for st in impl['stats']]}
        if 'inj' not in impl:
            return None
        return {'op': 'select_pairs', 'stats': impl['inj']['stats'][0], 'mef': impl['mef_values'][0], 'sel': impl['exp_sel'][0]}

    def compare(self, case, impl, model):
        if 'driver_error' in model:
            return 'driver: ' + model['driver_error']
        if case.get('k') == 'selection':
            lo, hi = unbits(model['low']), unbits(model['high'])
            for j, (got, want, st) in enumerate(zip(impl['mask'], model['mask'], impl['stats'])):
                near = min(abs(st[2] - impl['nl'] * st[3] - lo), abs(hi - st[2] - impl['nh'] * st[3])) < 1e-6 * (impl['s1'] - impl['s0'])
                if got != want and not near:
                    return 'selection of subpopulation %d: implementation %s, model %s (thresholds %r, %r)' % (j, got, want, lo, hi)
            return None
        if model['rfi'] != impl['inj']['rfi'][0] or model['mef'] != impl['inj']['mef'][0]:
            return 'model selectPairs %s / %s vs implementation %s / %s' % (model['rfi'], model['mef'], impl['inj']['rfi'][0], impl['inj']['mef'][0])
        return None

    def shrink_candidates(self, case):
        return []

    def nontrivial_key(self, case, impl):
        if case.get('k') == 'selection':
            return ('selection', case['npop'], case['range'], tuple(impl.get('mask', [])))
        if case.get('k') == 'fit_sweep':
            return ('fit_sweep', case['n'])
        prof = 'equal' if len(set(case['sizes'])) == 1 else ('mild' if max(case['sizes']) < 1.4 * min(case['sizes']) else 'unequal')
        return (case['K'], case['nch'], case['blank'], case['saturate'], tuple(map(tuple, case['unknown'])), prof, case['stat'], case['clust'])
