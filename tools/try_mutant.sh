#!/bin/sh
# usage: tools/try_mutant.sh <patch.diff> <Cxx> [tier]   -- applies to /repo, runs the check, restores /repo and the evidence file
P=$(readlink -f "$1"); shift
PID=$1; TIER=${2:-quick}
[ -z "$(git -C /repo status --porcelain --untracked-files=no)" ] || { echo "/repo not clean"; exit 3; }
cd /verif
cp evidence/$PID.json /tmp/evidence_$PID.bak 2>/dev/null
git -C /repo apply "$P" || exit 3
./check $PID --tier $TIER > /tmp/try_$PID.log 2>&1; rc=$?
git -C /repo checkout -- .
cp /tmp/evidence_$PID.bak evidence/$PID.json 2>/dev/null
grep -E "VIOLATION|KNOWN-FINDING|NOTE" /tmp/try_$PID.log | head -4
echo "exit=$rc"
