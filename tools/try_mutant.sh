#!/bin/sh
# usage: tools/try_mutant.sh <patch.diff> <Cxx> [tier]
# Applies the patch to a checkout (FLOWCAL_REPO, default: the scratch worktree /tmp/wt_mut, created on demand;
# never /repo itself unless FLOWCAL_REPO=/repo), runs the check against it, restores the checkout and the evidence file.
P=$(readlink -f "$1"); shift
PID=$1; TIER=${2:-quick}
R=${FLOWCAL_REPO:-/tmp/wt_mut}
[ -d "$R" ] || git -C /repo worktree add -q --detach "$R" HEAD || exit 3
git -C "$R" checkout -q --detach $(git -C /repo rev-parse HEAD) 2>/dev/null
[ -z "$(git -C $R status --porcelain --untracked-files=no)" ] || { echo "$R not clean"; exit 3; }
cd /verif
cp evidence/$PID.json /tmp/evidence_$PID.bak 2>/dev/null
git -C "$R" apply "$P" || exit 3
FLOWCAL_REPO=$R ./check $PID --tier $TIER > /tmp/try_$PID.log 2>&1; rc=$?
git -C "$R" checkout -- .
cp /tmp/evidence_$PID.bak evidence/$PID.json 2>/dev/null
# regenerate the source facts for the real repository
/venv/bin/python extract/facts.py
/venv/bin/python extract/exprs.py
grep -E "VIOLATION|NOTE" /tmp/try_$PID.log | head -4
echo "exit=$rc"
