#!/usr/bin/env python3
"""Writes one brief per property for a round of independent mutation sub-agents and creates their scratch worktrees.
usage: tools/make_mutant_briefs.py <round-dir, e.g. /tmp/mut3>
The brief contains only the property text, the workspace rules and one-paragraph summaries of the earlier seeded changes of that
property (so that the new ones differ); nothing about the verification machinery."""
import json, subprocess, os, sys
ROOT = os.path.dirname(os.path.dirname(os.path.abspath(__file__)))
R = sys.argv[1]
os.makedirs(R + '/brief', exist_ok=True)
os.makedirs(R + '/out', exist_ok=True)
fails = """test/test_excel_ui.py::TestReadTable::test_read_table_xls
test/test_io.py::TestFCSAttributesChannelLabels (5 tests)
test/test_stats.py::TestMode (5 tests)"""
for l in open(os.path.join(ROOT, 'properties.jsonl')):
    p = json.loads(l); pid = p['id']
    wt = f'{R}/{pid}'
    if not os.path.exists(wt):
        subprocess.check_call(['git', '-C', '/repo', 'worktree', 'add', '-q', '--detach', wt, 'HEAD'])
    os.makedirs(f'{R}/out/{pid}', exist_ok=True)
    prev = []
    for d in sorted(os.listdir(os.path.join(ROOT, 'seeded'))):
        if d.startswith(pid + '-m'):
            try:
                prev.append(json.load(open(os.path.join(ROOT, 'seeded', d, 'meta.json'))).get('summary', '')[:350])
            except Exception:
                pass
    open(f'{R}/brief/{pid}.md', 'w').write(f"""# Task: seed a realistic, hard-to-notice regression into FlowCal that breaks one stated property (later round)

You are testing a verification effort from the outside. You get the text of ONE semantic property of the
Python library FlowCal (flow cytometry: FCS reader, transforms, gates, statistics, bead calibration, Excel UI) and your own scratch
git worktree of the library. Produce TWO different, independent source changes ("mutations"), each of which

1. breaks the property below on the real code,
2. still imports/compiles, and still passes the existing test suite exactly as the unmodified tree does, and
3. needs something *specific* to manifest — an unusual input, a particular parameter combination, a multi-step sequence of calls,
   two cooperating sites that each look fine alone, a particular tie pattern, a boundary value, a rarely used option, etc. — NOT something
   ordinary use would expose at once. Prefer changes that look like plausible refactorings, "optimisations" or bug-fixes a maintainer
   might really commit. The two mutations should be of different kinds / touch different mechanisms.

Earlier rounds already produced the following changes for this property; **do something different** (another clause of the
property, another code path, another kind of trigger, another input region):
{chr(10).join('  - ' + x for x in prev)}

## The property ({pid}): {p['title']}

Statement: {p['statement']}

Quantified over: {p['quantifier']['text']}

Relevant source files: {', '.join(p['anchors']['files'])}

## Your workspace and rules

* Your worktree: `{wt}` (a git worktree of the repository at its current HEAD). Work ONLY there. Never modify `/repo`. Do not read
  anything under `/verif` or `/root` (you must be independent of the verification machinery).
* **Never use `git stash`** (the stash is shared between worktrees). To toggle your change use
  `git diff > {R}/out/{pid}/x.diff; git checkout -- .; ...; git apply {R}/out/{pid}/x.diff`.
* Python: `/venv/bin/python` (numpy 2.x, scipy, pandas, matplotlib, scikit-learn, openpyxl...). No network.
  Always run with `cd {wt}` and `PYTHONPATH={wt}` so that the worktree's copy of the library is imported (check with
  `PYTHONPATH={wt} /venv/bin/python -c "import FlowCal; print(FlowCal.__file__)"`). Use `MPLBACKEND=Agg` if you plot.
* Test suite command (~10 s): `cd {wt} && PYTHONPATH={wt} /venv/bin/python -m pytest -q -p no:cacheprovider --timeout=900 -W ignore`
  On the unmodified tree this gives `11 failed, 409 passed`; the 11 failures are pre-existing and unrelated:
{fails}
  With each of your mutations applied, the result must be exactly the same set of passes/failures.
* For each mutation k in {{1,2}} write into `{R}/out/{pid}/m<k>/`:
  - `patch.diff` — output of `git diff` in the worktree with only that mutation applied (must apply cleanly with `git apply` on a clean checkout of HEAD);
  - `demo.py` — a small standalone program that exercises the public API, exits with status 0 on the unmodified tree and non-zero
    (assertion failure with a clear message) when the mutation is applied; runnable as
    `cd <some checkout> && PYTHONPATH=<that checkout> /venv/bin/python {R}/out/{pid}/m<k>/demo.py`; it must not depend on files outside the
    checkout (it may use files in `test/` and `examples/`, and temporary files under a `tempfile.mkdtemp()` it removes afterwards).
    If you need synthetic FCS files, write them from the demo itself (58-byte HEADER `FCS3.0    ` + 6 right-justified 8-char ASCII offsets, a TEXT
    segment `/key/value/.../`, then binary DATA; required keywords: $BEGINANALYSIS $ENDANALYSIS $BEGINSTEXT $ENDSTEXT $BEGINDATA $ENDDATA
    $BYTEORD $DATATYPE $MODE $NEXTDATA $PAR $TOT $PnB $PnE $PnN $PnR);
  - `meta.json` — {{"property": "{pid}", "summary": "...what was changed...", "needs_to_manifest": "...the specific input / sequence / combination required...", "why_tests_pass": "...", "ran": ["commands you ran and their outcome"]}}.
* Verify yourself, for each mutation: (a) tests unchanged vs baseline, (b) demo fails with it, (c) demo passes without it.
* When done, leave the worktree clean (`git -C {wt} checkout -- . && git -C {wt} status --short` prints nothing).
* Final answer: a short report (what each mutation does, what it needs to manifest, confirmation of (a)(b)(c)).
""")
print('briefs written to', R + '/brief')
