import sys, os, collections, json
sys.path.insert(0, '/verif/harness')
import importlib, common
pid = sys.argv[1]; seed = int(sys.argv[2]) if len(sys.argv) > 2 else 0
mod = importlib.import_module(pid.lower())
chk = mod.Prop('quick', seed)
import itertools
cases = chk.gen_cases()
chk.process(cases)
c = collections.Counter()
ex = {}
import re
for case, msg, both in chk.disagreements:
    k = re.sub(r'[0-9]+', '#', msg)[:100]
    c[k] += 1; ex.setdefault(k, (case, msg, both))
for k, n in c.most_common(15):
    print(n, k); print('   ', json.dumps(ex[k][0])[:300]); print('   ', ex[k][1][:300])
print('violations', len(chk.violations))
for v in chk.violations[:5]: print(json.dumps(v[0])[:300], v[1][:300])
