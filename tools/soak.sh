#!/bin/sh
# usage: tools/soak.sh <tier> <seed>...   runs every registered check with the given seeds; prints a summary line per run
TIER=$1; shift
cd "$(dirname "$0")/.."
for s in "$@"; do
  for p in C01 C02 C03 C04 C05 C06 C07 C08 C09 C10 C11 C12 C13 C14 C15 C16 C17 C18 C19 C20; do
    t0=$(date +%s)
    VERIF_SEED=$s ./check $p --tier $TIER > /tmp/soak_$p.log 2>&1; rc=$?
    t1=$(date +%s)
    echo "seed=$s $p exit=$rc $((t1-t0))s $(grep -c '^VIOLATION' /tmp/soak_$p.log) violations $(grep -c '^KNOWN-FINDING' /tmp/soak_$p.log) known"
    if [ $rc -ne 0 ]; then grep -A2 '^VIOLATION\|Traceback\|NOTE' /tmp/soak_$p.log | head -12; fi
  done
done
