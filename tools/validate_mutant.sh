#!/bin/sh
# usage: tools/validate_mutant.sh <dir with patch.diff and demo.py>
# Confirms in a scratch worktree: patch applies, baseline tests unchanged, demo fails with patch and passes without.
set -u
D=$(cd "$1" && pwd)
WT=/tmp/mutval/$(basename $(dirname $D))_$(basename $D)_$$
mkdir -p /tmp/mutval
git -C /repo worktree add -q --detach $WT HEAD || exit 3
cd $WT
res=""
PYTHONPATH=$WT MPLBACKEND=Agg timeout 600 /venv/bin/python $D/demo.py >/tmp/mutval/clean_$$.log 2>&1; c=$?
git apply $D/patch.diff || { echo "PATCH-DOES-NOT-APPLY"; git -C /repo worktree remove --force $WT; exit 3; }
PYTHONPATH=$WT MPLBACKEND=Agg timeout 600 /venv/bin/python $D/demo.py >/tmp/mutval/mut_$$.log 2>&1; m=$?
PYTHONPATH=$WT /venv/bin/python -m pytest -q -p no:cacheprovider --timeout=900 -W ignore --junitxml=/tmp/mutval/j_$$.xml >/tmp/mutval/t_$$.log 2>&1
t=$(/venv/bin/python - <<PY
import json, xml.etree.ElementTree as ET
b=json.load(open('/root/.vp/BASELINE.json'))
ok=set()
for tc in ET.parse('/tmp/mutval/j_$$.xml').iter('testcase'):
    if not any(c.tag in('failure','error','skipped') for c in tc): ok.add(tc.get('classname')+'::'+tc.get('name'))
miss=[x for x in b['stable_pass'] if x not in ok]
print('tests_ok' if not miss else 'TESTS_BROKEN:%d'%len(miss))
PY
)
cd /; git -C /repo worktree remove --force $WT; rm -f /tmp/mutval/j_$$.xml
echo "demo_clean_exit=$c demo_mutant_exit=$m $t"
[ $c -eq 0 ] && [ $m -ne 0 ] && [ "$t" = tests_ok ]
