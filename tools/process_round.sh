#!/bin/sh
# usage: tools/process_round.sh <round-dir>   validates and tries every complete, not yet processed mutant of a round (sequentially)
R=$1
cd /verif
for d in $(cd $R/out && ls -d C*/m[12] 2>/dev/null); do
  [ -f $R/out/$d/patch.diff ] && [ -f $R/out/$d/demo.py ] && [ -f $R/out/$d/meta.json ] || continue
  [ -f $R/out/$d/processed.txt ] && continue
  pid=$(dirname $d)
  v=$(tools/validate_mutant.sh $R/out/$d 2>&1 | tail -1)
  t=$(tools/try_mutant.sh $R/out/$d/patch.diff $pid 2>&1 | tail -3 | tr '\n' ' ' | cut -c1-400)
  echo "$d | $v | $t" | tee $R/out/$d/processed.txt
done
