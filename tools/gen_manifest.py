#!/usr/bin/env python3
"""Regenerates MANIFEST.json from tools/checks.json (single source of truth)."""
import json, os
here = os.path.dirname(os.path.abspath(__file__))
root = os.path.dirname(here)
spec = json.load(open(os.path.join(here, 'checks.json')))
props = [json.loads(l)['id'] for l in open(os.path.join(root, 'properties.jsonl'))]
checks = []
for pid in props:
    c = spec['checks'].get(pid)
    if not c:
        continue
    checks.append({
        "property_id": pid,
        "quick_cmd": f"./check {pid} --tier quick",
        "thorough_cmd": f"./check {pid} --tier thorough",
        "evidence_file": f"evidence/{pid}.json",
        "replay_cmd_template": f"./check {pid} --replay {{path}}",
        "engine": "lean4-proof+correspondence",
        "level_claimed": {"category": "proof", "text": c['text'], "design_ref": c.get('design_ref', f"DESIGN.md section 6 / {pid}")},
        "level_note": c['note'],
        "technique": c['technique'],
    })
na = [{"property_id": pid, "reason": spec['not_applicable'].get(pid, "check not built yet in this session; see DESIGN.md section 9 build order")}
      for pid in props if pid not in spec['checks']]
m = {
    "version": 1,
    "setup_cmd": spec['setup_cmd'],
    "hooks": spec['hooks'],
    "engines": [{"name": "lean4-proof+correspondence", "path": "lean/ + harness/ + check",
                 "serves_properties": [c['property_id'] for c in checks],
                 "kind_free_text": "Lean 4 theorems over hand-written executable models; models tied to /repo by a differential correspondence harness (line protocol to compiled Lean driver) and by source facts regenerated from /repo on every run"}],
    "checks": checks,
    "notes": spec.get('notes', ''),
    "not_applicable": na,
}
json.dump(m, open(os.path.join(root, 'MANIFEST.json'), 'w'), indent=1)
print("checks:", len(checks), "not_applicable:", len(na))
