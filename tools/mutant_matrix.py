#!/usr/bin/env python3
"""Runs every seeded mutant against the checks of the properties it affects and writes seeded/MATRIX.md
and seeded/<id>/result.json.  Works on the checkout named by FLOWCAL_REPO (default /repo), which must be clean;
each patch is applied, the checks are run, and the patch is reverted.
usage: tools/mutant_matrix.py [--tier quick] [--only <substr>] [--all-checks]      (VERIF_SEED in the environment selects the seed;
with --only or a seed other than 0 the summary goes to seeded/MATRIX-<tag>.md instead of seeded/MATRIX.md)"""
import json, os, subprocess, sys, time
ROOT = os.path.dirname(os.path.dirname(os.path.abspath(__file__)))
REPO = os.environ.get('FLOWCAL_REPO', '/repo')
args = sys.argv[1:]
only = args[args.index('--only') + 1] if '--only' in args else None
allc = '--all-checks' in args
props = [json.loads(l)['id'] for l in open(os.path.join(ROOT, 'properties.jsonl'))]


def sh(cmd, **kw):
    return subprocess.run(cmd, shell=True, stdout=subprocess.PIPE, stderr=subprocess.STDOUT, text=True, **kw)


assert sh('git -C %s status --porcelain --untracked-files=no' % REPO).stdout.strip() == '', 'repo not clean'
rows = []
for d in sorted(os.listdir(os.path.join(ROOT, 'seeded'))):
    p = os.path.join(ROOT, 'seeded', d)
    if not os.path.isdir(p) or (only and only not in d):
        continue
    meta = json.load(open(os.path.join(p, 'meta.json')))
    targets = [meta['property']] + [x for x in meta.get('also_affects', []) if x != meta['property']]
    if allc:
        targets = props
    r = sh('git -C %s apply %s' % (REPO, os.path.join(p, 'patch.diff')))
    if r.returncode:
        rows.append((d, meta['property'], 'PATCH-DOES-NOT-APPLY', {}))
        continue
    res = {}
    try:
        for t in targets:
            t0 = time.time()
            ev = os.path.join(ROOT, 'evidence', t + '.json')
            bak = open(ev).read() if os.path.exists(ev) else None
            c = sh('cd %s && ./check %s --tier quick' % (ROOT, t), timeout=3000)
            if bak is not None:
                open(ev, 'w').write(bak)
            viol = [l for l in c.stdout.splitlines() if l.startswith('VIOLATION')]
            res[t] = {'exit': c.returncode, 'violations': len(viol), 'no_failing_input': any('no-failing-input-found' in v for v in viol),
                      'first': next((l.strip() for l in c.stdout.splitlines() if l.startswith('  ')), '')[:200], 's': round(time.time() - t0, 1)}
    finally:
        sh('git -C %s checkout -- .' % REPO)
    if os.environ.get('VERIF_SEED', '0') == '0':
      json.dump({'ran': time.strftime('%Y-%m-%d %H:%M'), 'repo_head': sh('git -C %s rev-parse --short HEAD' % REPO).stdout.strip(), 'results': res},
              open(os.path.join(p, 'result.json'), 'w'), indent=1)
    rows.append((d, meta['property'], 'detected' if any(v['exit'] == 1 for v in res.values()) else 'MISSED', res))
    print(d, rows[-1][2], {k: v['exit'] for k, v in res.items()}, flush=True)
seed = os.environ.get('VERIF_SEED', '0')
tag = ('-seed%s' % seed if seed != '0' else '') + ('-only-%s' % only if only else '')
with open(os.path.join(ROOT, 'seeded', 'MATRIX%s.md' % tag), 'w') as f:
    f.write('# Seeded changes vs checks (quick tier)\n\n| seeded change | property | outcome | checks run (exit code; 1 = VIOLATION reported) |\n|---|---|---|---|\n')
    for d, pid, st, res in rows:
        f.write('| %s | %s | %s | %s |\n' % (d, pid, st, ', '.join('%s:%d%s' % (k, v['exit'], ' (no-failing-input-found)' if v['no_failing_input'] else '') for k, v in res.items())))
print('missed:', [r[0] for r in rows if r[2] != 'detected'])
