#!/bin/sh
# Builds the Lean models, proofs and the compiled model driver. Offline.
set -e
cd "$(dirname "$0")"
/venv/bin/python extract/facts.py || python3 extract/facts.py
/venv/bin/python extract/exprs.py || python3 extract/exprs.py
cd lean
lake build FlowCalModel Properties fcmodel
